(* C18 — Alphabet operations follow IUPAC semantics; search is sound and
   complete.  complement_from/to, transcribe_from/to, match_rows and
   match_default_quoted are REGENERATED from /repo/nucleotide.go on every run;
   iupac_mask / compl_mask are the hand-written IUPAC specification. *)
From GTS Require Import Base Arith Tables Loc Seq Nuc NucProofs.
Open Scope Z_scope.

(* all 256 byte values: an IUPAC letter (either case) goes to the letter
   denoting the complementary base set, same case; every other byte unchanged *)
Theorem C18_complement_table : forall b, 0 <= b < 256 -> complement_ok b = true.
Proof. exact complement_table. Qed.
Print Assumptions C18_complement_table.

(* involution, up to U -> A -> T *)
Theorem C18_complement_involution : forall b, 0 <= b < 256 -> complement_invol_ok b = true.
Proof. exact complement_invol. Qed.
Print Assumptions C18_complement_involution.

(* transcribing differs only in writing U for the complement of A *)
Theorem C18_transcribe : forall b, 0 <= b < 256 -> transcribe_ok b = true.
Proof. exact transcribe_table. Qed.
Print Assumptions C18_transcribe.

(* length preserved, never a panic *)
Theorem C18_complement_total : forall p, Forall (fun b => 0 <= b < 256) p ->
  exists r, complement_bytes p = Ok r /\ length r = length p.
Proof. exact complement_bytes_total. Qed.
Print Assumptions C18_complement_total.

(* the match table: for query letter q (not k) and sequence letter s of the
   IUPAC alphabet, the class written for q accepts s iff bases(s) ⊆ bases(q) *)
Theorem C18_match_table : forall q s, In q iupac_letters -> In s iupac_letters -> q <> 107 ->
  table_ok_for q s = true.
Proof. exact match_table. Qed.
Print Assumptions C18_match_table.

(* known finding K3 (pinned by TestMatch): the row for k accepts y, rejects k *)
Theorem C18_match_k_refuted :
  cls_accepts (cls_of 107) 121 = true /\ cls_accepts (cls_of 107) 107 = false.
Proof. exact match_k_refuted. Qed.
Print Assumptions C18_match_k_refuted.

(* query bytes outside the alphabet are literals matching only themselves *)
Theorem C18_literals : forall q x, find_row match_rows q = None ->
  cls_accepts (cls_of q) x = (x =? q).
Proof. intros q x H. exact (literal_class q x H default_is_quoted). Qed.
Print Assumptions C18_literals.

(* the scanner reports only matching segments (any sequence, any pattern) *)
Theorem C18_match_sound : forall fuel cs m (s0 : list byte) a b,
  m = length cs -> (0 < m)%nat -> In (a, b) (scan fuel cs m s0 0) ->
  b = a + Z.of_nat m /\ 0 <= a /\ matches_here cs (skipn (Z.to_nat a) s0) = true.
Proof.
  intros fuel cs m s0 a b Hm Hm0 Hin.
  exact (scan_sound fuel cs m s0 0 s0 Hm Hm0 eq_refl (Z.le_refl 0) a b Hin).
Qed.
Print Assumptions C18_match_sound.

(* ... and finds every matching segment that does not overlap an earlier
   reported one: each matching start lies in a reported segment *)
Theorem C18_match_complete : forall cs m (s0 : list byte) i,
  m = length cs -> (0 < m)%nat -> 0 <= i ->
  matches_here cs (skipn (Z.to_nat i) s0) = true ->
  exists a b, In (a, b) (scan (S (length s0)) cs m s0 0) /\ a <= i < b.
Proof.
  intros cs m s0 i Hm Hm0 Hi Hmatch.
  exact (scan_complete (S (length s0)) cs m s0 0 s0 Hm Hm0 eq_refl (Z.le_refl 0)
           (Nat.lt_succ_diag_r _) i Hi Hmatch).
Qed.
Print Assumptions C18_match_complete.

(* exact search: exactly the set of all (overlapping) occurrences ... *)
Theorem C18_search_exact : forall q m (s0 : list byte) a b,
  In (a, b) (occurrences (length s0) q m s0 0) <->
  (b = a + m /\ 0 <= a < Z.of_nat (length s0) /\ is_prefix q (skipn (Z.to_nat a) s0) = true).
Proof.
  intros q m s0 a b.
  exact (occurrences_spec (length s0) q m s0 0 s0 eq_refl (Z.le_refl 0) (le_n _) a b).
Qed.
Print Assumptions C18_search_exact.

Example C18_example :
  match_segments [97; 99; 71; 116; 97; 99] [114; 78] = Ok [(0, 2); (2, 4); (4, 6)] /\
  search_segments [97; 97; 65; 97] [65; 97] = [(0, 2); (1, 3); (2, 4)].
Proof. vm_compute. split; reflexivity. Qed.
