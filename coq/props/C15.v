(* C15 — Multi-site edit commands act once at every located site, in input
   coordinates.  Plans.v models the scan loops of gts delete / insert / infix /
   split / rotate / extract as functions of the located regions; the theorems
   are about residues (records without features): feature bookkeeping is
   C02/C03/C10's, and the whole plans incl. features are tied to the real
   binary by the correspondence. *)
From GTS Require Import Base Arith Loc Seq Region Plans PlansProofs RegionProofs ResizeProofs SeqProofs PlansMore.
Open Scope Z_scope.

(* insert / infix: the heads are sorted in descending order and a guest copy
   is inserted at each; the result is the input with one copy of the guest at
   every located head, positions measured in the INPUT (spec_insert recurses
   on prefixes of the input) *)
Theorem C15_insert_each_head : forall embed (p g : list byte) (rr : list region),
  Forall (fun r => 0 <= region_head r <= zlen p) rr ->
  plan_insert (bare p) rr (bare g) embed =
  Ok (bare (spec_insert p (sort_desc (map region_head rr)) g)).
Proof. exact plan_insert_bytes. Qed.
Print Assumptions C15_insert_each_head.

(* delete: removing disjoint segments right to left removes exactly their
   union, every segment taken in input coordinates (the minimized located
   regions are such segments: C09_minimize_sorted_disjoint / _cover) *)
Theorem C15_delete_union : forall rev_ss (p : list byte),
  segs_within (zlen p) rev_ss -> zlen p < 2 ^ 62 ->
  fold_delete false (bare p) rev_ss = Ok (bare (spec_delete p rev_ss)).
Proof. exact delete_union. Qed.
Print Assumptions C15_delete_union.

(* split (linear): the pieces concatenate back to the input *)
Theorem C15_split_concat : forall (p : list byte) splits,
  ascending 0 splits -> Forall (fun x => x <= zlen p) splits -> last splits 0 = zlen p ->
  exists pieces, slice_pairs (bare p) (0 :: splits) = Ok pieces /\ flat_map residues pieces = p.
Proof. exact split_concat. Qed.
Print Assumptions C15_split_concat.

(* extract -v: the unlocated stretches are a partition complement (C09) *)
Theorem C15_extract_invert_partition : forall r n, 0 <= n -> within n r ->
  let inv := invert_segments (minimize r) 0 n in
  Forall (fun u => fst u < snd u) inv /\
  forall x, 0 <= x < n -> countc (minimize r ++ inv) x = 1%nat.
Proof. exact invert_linear_partition. Qed.
Print Assumptions C15_extract_invert_partition.

Example C15_example :
  plan_insert (bare [1; 2; 3; 4; 5; 6]) [Seg 4 6; Seg 1 2; Seg 4 5] (bare [9; 9]) false
  = Ok (bare [1; 9; 9; 2; 3; 4; 9; 9; 9; 9; 5; 6]) /\
  plan_delete (bare [1; 2; 3; 4; 5; 6]) [Seg 4 6; Seg 1 2; Seg 5 3] false = Ok (bare [1; 3]).
Proof. vm_compute. split; reflexivity. Qed.

(* split of a circular record at two or more distinct positions h1 < ... < hk:
   the first piece runs from the last cut across the origin to the first, the
   others between consecutive cuts; together they are the input re-origined
   at the last cut (for one distinct cut the record is rotated there: C04) *)
Theorem C15_split_circular_concat : forall (p : list byte) h1 rest, 0 <= h1 -> ascending h1 rest ->
  h1 < last rest h1 -> last rest h1 < zlen p ->
  exists pieces, slice_pairs (ResizeProofs.bare p) (last rest h1 :: h1 :: rest) = Ok pieces /\
    flat_map residues pieces = skipn (Z.to_nat (last rest h1)) p ++ firstn (Z.to_nat (last rest h1)) p.
Proof. exact circular_split_concat. Qed.
Print Assumptions C15_split_circular_concat.

Example C15_split_circular_example :
  slice_pairs (ResizeProofs.bare [97; 98; 99; 100; 101; 102; 103; 104]) [6; 2; 5; 6]
  = Ok [ResizeProofs.bare [103; 104; 97; 98]; ResizeProofs.bare [99; 100; 101]; ResizeProofs.bare [102]].
Proof. vm_compute. reflexivity. Qed.

(* rotate: the head of the first located region comes to index 0 -- the record
   starts with the residue that was at that position, the residues before it
   follow at the end, nothing else changes (record without features; features
   are C04's) *)
Theorem C15_rotate_first_located_to_origin : forall (p : list byte) r rest, 0 <= region_head r < zlen p ->
  plan_rotate (bare p) (r :: rest) =
  Ok (bare (skipn (Z.to_nat (region_head r)) p ++ firstn (Z.to_nat (region_head r)) p)).
Proof. exact plan_rotate_origin. Qed.
Print Assumptions C15_rotate_first_located_to_origin.

(* extract: every located region is written once (region_eqb is equality of
   regions, segment for segment: look-alike regions with equal ends and equal
   length are different regions); a list without repeats is kept as it is, in
   order; of a repeated region the first occurrence stays *)
Theorem C15_extract_each_region_once : forall rr,
  NoDup (dedup_regions rr []) /\ (forall r, In r (dedup_regions rr []) <-> In r rr).
Proof. exact dedup_nodup. Qed.
Print Assumptions C15_extract_each_region_once.

Theorem C15_extract_keeps_order : forall rr, NoDup rr -> dedup_regions rr [] = rr.
Proof. exact dedup_identity. Qed.

Theorem C15_extract_first_occurrence_stays : forall pre x post, ~ In x pre ->
  dedup_regions (pre ++ x :: post) [] = dedup_regions (pre ++ x :: filter (fun r => negb (region_eqb r x)) post) [].
Proof. exact dedup_first_stays. Qed.

Example C15_extract_example :
  dedup_regions [Regs [Seg 0 4; Seg 7 10]; Seg 2 5; Regs [Seg 0 3; Seg 6 10]; Seg 2 5; Regs [Seg 0 4; Seg 7 10]] []
  = [Regs [Seg 0 4; Seg 7 10]; Seg 2 5; Regs [Seg 0 3; Seg 6 10]].
Proof. vm_compute. reflexivity. Qed.
