(* C10 — Edits are invertible: delete undoes insert. *)
From GTS Require Import Base Arith Loc Seq BaseLemmas LocProofs EditProofs SeqProofs JoinDen JoinLift UndoProofs.
Open Scope Z_scope.

(* residues are restored *)
Theorem C10_delete_insert_bytes : forall p i q, 0 <= i <= zlen p ->
  (r <- insert_bytes p i q ;; delete_bytes r i (zlen q)) = Ok p.
Proof. exact delete_insert_bytes. Qed.
Print Assumptions C10_delete_insert_bytes.

(* a contiguous host location is restored EXACTLY (coordinates and partial
   markers): the alignments point = i, start = i, end = i and the split/re-merge
   of a range spanning i are cases of the proof.
   PARTIAL: contiguous locations (ambiguous spans not strictly spanning i: a
   split ambiguous span stays an order(...) of two spans that denote the same
   residues); multi-part locations are covered by correspondence and oracle. *)
Theorem C10_undo_insert_contig_partial : forall i n, 0 < n -> forall l,
  contiguous l -> range_wf l = true ->
  match l with Ambiguous s e => (s <? e) && negb ((s <? i) && (i <? e)) | _ => true end = true ->
  exists l', shift l i n = Ok l' /\ expand l' i (- n) = Ok l.
Proof. exact undo_insert_contig. Qed.
Print Assumptions C10_undo_insert_contig_partial.

(* EVERY location (join, order, complement nested to any depth): after
   insert;delete and after embed;delete the feature denotes the same ordered,
   stranded residues as before, up to adjacent duplicates.  k1_after: at either
   step no image point lands on an image range end and no image range is empty
   (the complement of known finding K1).  Partial correctness: whenever both
   steps return a location. *)
Theorem C10_undo_insert_den : forall i n, 0 < n -> forall l l' l'',
  k1_after (fun x => shift x i n) l -> shift l i n = Ok l' ->
  k1_after (fun x => expand x i (- n)) l' -> expand l' i (- n) = Ok l'' ->
  deq (den l'') (den l).
Proof. exact undo_insert_den. Qed.
Print Assumptions C10_undo_insert_den.

Theorem C10_undo_embed_den : forall i n, 0 < n -> forall l l' l'',
  k1_after (fun x => expand x i n) l -> expand l i n = Ok l' ->
  k1_after (fun x => expand x i (- n)) l' -> expand l' i (- n) = Ok l'' ->
  deq (den l'') (den l).
Proof. exact undo_embed_den. Qed.
Print Assumptions C10_undo_embed_den.

Example C10_joins_example :
  let l := Joined [Ranged 0 2 true false; Complemented (Joined [Ranged 3 6 false false; Point 8])] in
  let l' := Joined [Ranged 0 2 true false; Complemented (Joined [Ranged 3 4 false false; Ranged 7 9 false false; Point 11])] in
  k1_afterb (fun x => shift x 4 3) l = true /\ shift l 4 3 = Ok l' /\
  k1_afterb (fun x => expand x 4 (- 3)) l' = true /\ expand l' 4 (- 3) = Ok l.
Proof. vm_compute. repeat split; reflexivity. Qed.

Example C10_example :
  shift (Ranged 2 6 true true) 4 3 = Ok (Joined [Ranged 2 4 true false; Ranged 7 9 false true]) /\
  expand (Joined [Ranged 2 4 true false; Ranged 7 9 false true]) 4 (- 3) = Ok (Ranged 2 6 true true).
Proof. vm_compute. split; reflexivity. Qed.
