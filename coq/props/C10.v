(* C10 — Edits are invertible: delete undoes insert, concat undoes split. *)
From GTS Require Import Base Arith Loc Seq BaseLemmas LocProofs EditProofs SeqProofs JoinDen JoinLift UndoProofs Region RegionProofs ResizeProofs RotateProofs SplitConcat.
From Coq Require Import Permutation.
Open Scope Z_scope.

(* residues are restored *)
Theorem C10_delete_insert_bytes : forall p i q, 0 <= i <= zlen p ->
  (r <- insert_bytes p i q ;; delete_bytes r i (zlen q)) = Ok p.
Proof. exact delete_insert_bytes. Qed.
Print Assumptions C10_delete_insert_bytes.

(* a contiguous host location is restored EXACTLY (coordinates and partial
   markers): the alignments point = i, start = i, end = i and the split/re-merge
   of a range spanning i are cases of the proof.
   PARTIAL: contiguous locations (ambiguous spans not strictly spanning i: a
   split ambiguous span stays an order(...) of two spans that denote the same
   residues); multi-part locations are covered by correspondence and oracle. *)
Theorem C10_undo_insert_contig_partial : forall i n, 0 < n -> forall l,
  contiguous l -> range_wf l = true ->
  match l with Ambiguous s e => (s <? e) && negb ((s <? i) && (i <? e)) | _ => true end = true ->
  exists l', shift l i n = Ok l' /\ expand l' i (- n) = Ok l.
Proof. exact undo_insert_contig. Qed.
Print Assumptions C10_undo_insert_contig_partial.

(* EVERY location (join, order, complement nested to any depth): after
   insert;delete and after embed;delete the feature denotes the same ordered,
   stranded residues as before, up to adjacent duplicates.  k1_after: at either
   step no image point lands on an image range end and no image range is empty
   (the complement of known finding K1).  Partial correctness: whenever both
   steps return a location. *)
Theorem C10_undo_insert_den : forall i n, 0 < n -> forall l l' l'',
  k1_after (fun x => shift x i n) l -> shift l i n = Ok l' ->
  k1_after (fun x => expand x i (- n)) l' -> expand l' i (- n) = Ok l'' ->
  deq (den l'') (den l).
Proof. exact undo_insert_den. Qed.
Print Assumptions C10_undo_insert_den.

Theorem C10_undo_embed_den : forall i n, 0 < n -> forall l l' l'',
  k1_after (fun x => expand x i n) l -> expand l i n = Ok l' ->
  k1_after (fun x => expand x i (- n)) l' -> expand l' i (- n) = Ok l'' ->
  deq (den l'') (den l).
Proof. exact undo_embed_den. Qed.
Print Assumptions C10_undo_embed_den.

Example C10_joins_example :
  let l := Joined [Ranged 0 2 true false; Complemented (Joined [Ranged 3 6 false false; Point 8])] in
  let l' := Joined [Ranged 0 2 true false; Complemented (Joined [Ranged 3 4 false false; Ranged 7 9 false false; Point 11])] in
  k1_afterb (fun x => shift x 4 3) l = true /\ shift l 4 3 = Ok l' /\
  k1_afterb (fun x => expand x 4 (- 3)) l' = true /\ expand l' 4 (- 3) = Ok l.
Proof. vm_compute. repeat split; reflexivity. Qed.

Example C10_example :
  shift (Ranged 2 6 true true) 4 3 = Ok (Joined [Ranged 2 4 true false; Ranged 7 9 false true]) /\
  expand (Joined [Ranged 2 4 true false; Ranged 7 9 false true]) 4 (- 3) = Ok (Ranged 2 6 true true).
Proof. vm_compute. split; reflexivity. Qed.

(* concat undoes split.  Cuts 0 <= c1 <= ... <= ck = L (chain; repeated cut
   positions, i.e. empty pieces, allowed); windows = the consecutive windows.
   Residues: slicing every window out of a sequence and concatenating the
   pieces in order gives the sequence back (Slice and Concat of the model, on
   sequences without features). *)
Theorem C10_split_concat_bytes : forall (p : list byte) cuts, chain 0 cuts (zlen p) ->
  exists pieces,
    omapM (fun w => seq_slice (bare p) (fst w) (snd w)) (windows 0 cuts) = Ok (map bare pieces) /\
    (cuts <> [] -> seq_concat (map bare pieces) = Ok (bare p)).
Proof. exact split_concat_bytes. Qed.
Print Assumptions C10_split_concat_bytes.

(* Features.  One piece [s,e) of a location without join(...): the two
   deletions of Slice succeed and, moved back by Concat's Expand(0,s), the
   piece denotes exactly the residues of the original inside the window, in
   the original order and each on its original strand.  (M: any bound above the
   coordinates; wf_all (awf s M) says the sliced location has no empty range.) *)
Theorem C10_piece_denotes_its_window_partial : forall s e L M l, 0 <= s <= e -> e <= L ->
  jfree l = true -> ord_ok l = true -> Forall (fun x => 0 <= fst x < L) (den l) ->
  exists l1 l2, expand l e (e - L) = Ok l1 /\ expand l1 0 (- s) = Ok l2 /\
    (wf_all (awf s M) l2 = true ->
     exists l3, expand l2 0 s = Ok l3 /\ den l3 = filter (inwin (s, e)) (den l)).
Proof. exact piece_den. Qed.
Print Assumptions C10_piece_denotes_its_window_partial.

(* ... and the windows of any ascending cut list partition what the feature
   denotes: the pieces together denote exactly the residues of the original
   feature (each residue in exactly one piece, with its strand), whatever the
   location is. *)
Theorem C10_pieces_partition : forall cuts c0 L (d : list (Z * bool)), chain c0 cuts L ->
  Forall (fun x => c0 <= fst x < L) d ->
  Permutation (flat_map (fun w => filter (inwin w) d) (windows c0 cuts)) d.
Proof. exact windows_partition. Qed.
Print Assumptions C10_pieces_partition.

Example C10_split_example :
  let l := Complemented (Ordered [Ranged 6 9 true false; Ranged 1 4 false false]) in
  chain 0 [3; 3; 7; 10] 10 /\ windows 0 [3; 3; 7; 10] = [(0, 3); (3, 3); (3, 7); (7, 10)] /\
  jfree l = true /\ ord_ok l = true /\
  expand l 7 (7 - 10) = Ok (Complemented (Ordered [Ranged 6 7 true true; Ranged 1 4 false false])) /\
  expand (Complemented (Ordered [Ranged 6 7 true true; Ranged 1 4 false false])) 0 (- 3)
    = Ok (Complemented (Ordered [Ranged 3 4 true true; Ranged 0 1 true false])) /\
  wf_all (awf 3 100) (Complemented (Ordered [Ranged 3 4 true true; Ranged 0 1 true false])) = true /\
  filter (inwin (3, 7)) (den l) = [(3, true); (6, true)].
Proof. vm_compute. repeat split; try reflexivity; intros H; discriminate H. Qed.
