(* C19 — Feature selection and sorted insertion behave as documented. *)
From Coq Require Import Sorting.Sorted.
From GTS Require Import Base Arith Loc Seq Select SelectProofs.
Open Scope Z_scope.

(* a selector '[key][/[name][=regexp]]...' accepts a feature iff the key (when
   given) is equal and every clause holds -- for EVERY regexp engine
   (re_ok = compiles, re_match = MatchString are parameters) *)
Theorem C19_selector_semantics : forall re_ok re_match sel p,
  selector re_ok sel = Ok p ->
  let '(key, tail) := shift_selector sel false [] in
  forall f, feval re_match p f =
    (match key with [] => true | _ => bytes_eqb (fkey f) key end) &&
    forallb (clause_holds re_match f) (clauses (S (length tail)) tail).
Proof. exact selector_sem. Qed.
Print Assumptions C19_selector_semantics.

(* And / Or / Not combine as boolean algebra *)
Theorem C19_and : forall re_match a b f, feval re_match (FAnd [a; b]) f = feval re_match a f && feval re_match b f.
Proof. exact and_sem. Qed.
Theorem C19_or : forall re_match a b f, feval re_match (FOr [a; b]) f = feval re_match a f || feval re_match b f.
Proof. exact or_sem. Qed.
Theorem C19_not : forall re_match a f, feval re_match (FNot a) f = negb (feval re_match a f).
Proof. exact not_sem. Qed.
Print Assumptions C19_and.

(* filtering returns exactly the accepted features, in table order, unaltered *)
Theorem C19_filter_exact : forall re_match p ff x,
  In x (feature_filter re_match p ff) <-> In x ff /\ feval re_match p x = true.
Proof. exact filter_sublist. Qed.
Print Assumptions C19_filter_exact.

(* ... in table order, each as often as it occurs: a feature at any position
   of the table contributes itself, unaltered, at the corresponding position
   of the result iff it is accepted, and nothing else is contributed *)
Theorem C19_filter_pointwise : forall re_match p a x b,
  feature_filter re_match p (a ++ x :: b) =
  feature_filter re_match p a ++ (if feval re_match p x then [x] else []) ++ feature_filter re_match p b.
Proof. exact filter_pointwise. Qed.
Print Assumptions C19_filter_pointwise.
Theorem C19_filter_nil : forall re_match p, feature_filter re_match p [] = [].
Proof. reflexivity. Qed.

(* the location order is a strict weak order (hence a strict partial order):
   it is the strict order of a key into a total order *)
Theorem C19_less_is_key : forall a b, loc_less a b = klt (lkey a) (lkey b).
Proof. exact loc_less_is_key. Qed.
Print Assumptions C19_less_is_key.

Theorem C19_less_irreflexive : forall a, loc_less a a = false.
Proof. exact less_irrefl. Qed.
Theorem C19_less_transitive : forall a b c, loc_less a b = true -> loc_less b c = true -> loc_less a c = true.
Proof. exact less_trans. Qed.
Theorem C19_less_incomparability_transitive : forall a b c,
  loc_less a b = false -> loc_less b a = false -> loc_less b c = false -> loc_less c b = false ->
  loc_less a c = false /\ loc_less c a = false.
Proof. exact less_incomparable_trans. Qed.
Print Assumptions C19_less_incomparability_transitive.

(* inserting into a table that is sources-first and sorted returns the same
   features in their old relative order plus the new one, sources first, the
   rest in non-decreasing location order (sort.Search is modelled as the exact
   binary search loop of the Go standard library) *)
Theorem C19_insert_sorted : forall srcs rest f,
  Forall (fun g => is_source g = true) srcs ->
  Forall (fun g => is_source g = false) rest ->
  StronglySorted may_follow rest ->
  exists r1 r2, rest = r1 ++ r2 /\
    fs_insert (srcs ++ rest) f =
      (if is_source f then srcs ++ f :: rest else srcs ++ r1 ++ f :: r2) /\
    (is_source f = false -> StronglySorted may_follow (r1 ++ f :: r2)).
Proof. exact insert_sorted. Qed.
Print Assumptions C19_insert_sorted.

Example C19_example :
  let f := mkfeat [67;68;83] (Ranged 2 5 false false) [[[103];[97;98;99]]] in
  match selector frag_ok [67;68;83;47;103;61;94;97] with
  | Ok p => feval frag_match p f = true
  | _ => False
  end.
Proof. vm_compute. reflexivity. Qed.
