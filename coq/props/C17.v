(* C17 — FASTA output reads back identically.
   fasta_format = Fasta.WriteTo (70-column wrap.Force), fasta_parser =
   FastaParser on the faithful pars model, scan_fasta = the Scanner loop. *)
From GTS Require Import Base Pars ParsLemmas Fasta FastaProofs GbFasta FastaCRLF.
Open Scope Z_scope.

(* one record, followed by the end of input or by another record: read back
   with the same description and the same residues, for EVERY residue count
   (0, exact multiples of 70, ...); the parser stops exactly at the next record.
   fasta_ok: description without line breaks; residues without '>', LF, CR *)
Theorem C17_roundtrip : forall desc data post o e a k,
  fasta_ok desc data -> stops post ->
  exists o' e',
    fasta_parser (mkst (fasta_format desc data ++ post) o e a k) =
    (Ok (desc, data), mkst post o' e' (a + zlen (fasta_format desc data)) k).
Proof. exact fasta_record. Qed.
Print Assumptions C17_roundtrip.

(* "description on one line": Fasta.WriteTo turns the line feeds of ANY
   description into blanks, so a description with line feeds (no carriage
   return) reads back with blanks in their place and never breaks the framing *)
Theorem C17_roundtrip_multiline_description : forall desc data post o e a k,
  no_byte 13 desc -> no_byte 10 data -> no_byte 13 data -> no_gt data -> stops post ->
  exists o' e',
    fasta_parser (mkst (fasta_format desc data ++ post) o e a k) =
    (Ok (nl_to_space desc, data), mkst post o' e' (a + zlen (fasta_format desc data)) k).
Proof. exact fasta_record_multiline. Qed.
Print Assumptions C17_roundtrip_multiline_description.

(* a stream of N records reads back as the same N records in order, and the
   scanner ends cleanly *)
Theorem C17_stream : forall recs, Forall rec_ok recs ->
  scan_fasta (concat (map fmt recs)) = Ok (recs, true).
Proof. exact fasta_stream. Qed.
Print Assumptions C17_stream.

(* the newline removal of the reader undoes the 70-column wrapping *)
Theorem C17_unwrap : forall fuel data, (length data <= fuel)%nat ->
  no_byte 10 data -> no_byte 13 data ->
  fasta_body_data (wrap_force fuel data 70 ++ [10]) = data.
Proof. exact body_data. Qed.
Print Assumptions C17_unwrap.

(* CRLF input, the residue half: with every LF of the written body replaced by
   CR LF (crlf = bytes.ReplaceAll "\n" -> "\r\n"), the reader's newline
   removal still returns exactly the residues, for every residue count *)
Theorem C17_unwrap_crlf : forall fuel data, (length data <= fuel)%nat ->
  no_byte 10 data -> no_byte 13 data ->
  fasta_body_data (crlf (wrap_force fuel data 70 ++ [10])) = data.
Proof. exact body_data_crlf. Qed.
Print Assumptions C17_unwrap_crlf.

Example C17_unwrap_crlf_example :
  let p := repeat 97 141 in
  crlf (wrap_force 141 p 70 ++ [10]) =
    repeat 97 70 ++ [13; 10] ++ repeat 97 70 ++ [13; 10] ++ [97; 13; 10] /\
  fasta_body_data (crlf (wrap_force 141 p 70 ++ [10])) = p.
Proof. vm_compute. split; reflexivity. Qed.

(* a whole record with CR LF line ends (crlf of what Fasta.WriteTo writes):
   pars.Line takes the description without the CR LF, the body runs to the
   next record, and the same description and residues come back; the parser
   stops exactly at the next record *)
Theorem C17_crlf_record : forall desc data post o e a k,
  fasta_ok desc data -> stops post ->
  exists o' e',
    fasta_parser (mkst (crlf (fasta_format desc data) ++ post) o e a k) =
    (Ok (desc, data), mkst post o' e' (a + zlen (crlf (fasta_format desc data))) k).
Proof. exact fasta_record_crlf. Qed.
Print Assumptions C17_crlf_record.

(* a stream of N written records whose every LF became CR LF reads back as
   the same N records in order, clean end *)
Theorem C17_crlf_stream : forall recs, Forall rec_ok recs ->
  scan_fasta (crlf (concat (map fmt recs))) = Ok (recs, true).
Proof. exact fasta_stream_crlf. Qed.
Print Assumptions C17_crlf_stream.

Example C17_crlf_example :
  let d := [115; 49] in let p := repeat 97 71 in
  crlf (fasta_format d p) = [62; 115; 49; 13; 10] ++ repeat 97 70 ++ [13; 10; 97; 13; 10] /\
  scan_fasta (crlf (fasta_format d p)) = Ok ([(d, p)], true).
Proof. vm_compute. split; reflexivity. Qed.

(* second sentence of the property: a GenBank record written as FASTA
   (gb_to_fasta = FastaWriter.WriteSeq with GenBankFields.String as the
   description) reads back as ONE record whose residues are the record's
   residues and whose description is version, ":head+1-tail" for a slice
   (region = Some (head, tail)), a blank and the definition with the line
   breaks of a multi-line DEFINITION turned into blanks; for every version
   and definition (no carriage return), every region, every residue count *)
Theorem C17_genbank_to_fasta : forall ver reg def data,
  no_eol ver -> region_ok reg -> no_byte 13 def ->
  no_byte 10 data -> no_byte 13 data -> no_gt data ->
  scan_fasta (gb_to_fasta ver reg def data) =
  Ok ([(gb_desc ver reg (nl_to_space def), data)], true).
Proof. exact gb_fasta_scan. Qed.
Print Assumptions C17_genbank_to_fasta.

(* the same inside a stream: the parser stops exactly at the next record *)
Theorem C17_genbank_to_fasta_record : forall ver reg def data post o e a k,
  no_eol ver -> region_ok reg -> no_byte 13 def ->
  no_byte 10 data -> no_byte 13 data -> no_gt data -> stops post ->
  exists o' e',
    fasta_parser (mkst (gb_to_fasta ver reg def data ++ post) o e a k) =
    (Ok (gb_desc ver reg (nl_to_space def), data),
     mkst post o' e' (a + zlen (gb_to_fasta ver reg def data)) k).
Proof. exact gb_fasta_record. Qed.
Print Assumptions C17_genbank_to_fasta_record.

(* NC_001422.1, residues 11..95 of it, a two-line definition *)
Example C17_genbank_example :
  let ver := [78; 67; 95; 48; 48; 49; 52; 50; 50; 46; 49] in
  let def := [112; 104; 105; 10; 88] in let p := repeat 99 85 in
  scan_fasta (gb_to_fasta ver (Some (10, 95)) def p) =
  Ok ([(ver ++ [58; 49; 49; 45; 57; 53; 32; 112; 104; 105; 32; 88], p)], true).
Proof. vm_compute. reflexivity. Qed.

Example C17_example :
  let d := [115; 49] in let p := repeat 97 141 in
  scan_fasta (fasta_format d p ++ fasta_format [] []) = Ok ([(d, p); ([], [])], true).
Proof. vm_compute. reflexivity. Qed.
