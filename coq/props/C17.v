(* C17 — FASTA output reads back identically.
   fasta_format = Fasta.WriteTo (70-column wrap.Force), fasta_parser =
   FastaParser on the faithful pars model, scan_fasta = the Scanner loop. *)
From GTS Require Import Base Pars Fasta FastaProofs.
Open Scope Z_scope.

(* one record, followed by the end of input or by another record: read back
   with the same description and the same residues, for EVERY residue count
   (0, exact multiples of 70, ...); the parser stops exactly at the next record.
   fasta_ok: description without line breaks; residues without '>', LF, CR *)
Theorem C17_roundtrip : forall desc data post o e a k,
  fasta_ok desc data -> stops post ->
  exists o' e',
    fasta_parser (mkst (fasta_format desc data ++ post) o e a k) =
    (Ok (desc, data), mkst post o' e' (a + zlen (fasta_format desc data)) k).
Proof. exact fasta_record. Qed.
Print Assumptions C17_roundtrip.

(* a stream of N records reads back as the same N records in order, and the
   scanner ends cleanly *)
Theorem C17_stream : forall recs, Forall rec_ok recs ->
  scan_fasta (concat (map fmt recs)) = Ok (recs, true).
Proof. exact fasta_stream. Qed.
Print Assumptions C17_stream.

(* the newline removal of the reader undoes the 70-column wrapping *)
Theorem C17_unwrap : forall fuel data, (length data <= fuel)%nat ->
  no_byte 10 data -> no_byte 13 data ->
  fasta_body_data (wrap_force fuel data 70 ++ [10]) = data.
Proof. exact body_data. Qed.
Print Assumptions C17_unwrap.

Example C17_example :
  let d := [115; 49] in let p := repeat 97 141 in
  scan_fasta (fasta_format d p ++ fasta_format [] []) = Ok ([(d, p); ([], [])], true).
Proof. vm_compute. reflexivity. Qed.
