(* C03 — Delete/Erase/Slice remove exactly the requested residues and features
   follow.  Delete maps every location through Expand(i, -n); Slice through
   Expand(end, end-len) then Expand(0, -start). *)
From GTS Require Import Base Arith Loc Seq BaseLemmas LocProofs EditProofs SeqProofs JoinDen JoinLift UndoProofs RotateProofs RotateJoin InsertSeq Region RegionProofs ResizeProofs SplitConcat SliceSeq PartialProofs.
Open Scope Z_scope.

(* residues: seq[:i] + seq[i+n:] *)
Theorem C03_bytes_delete : forall q off len, 0 <= off -> 0 <= len -> off + len <= zlen q ->
  delete_bytes q off len = Ok (firstn (Z.to_nat off) q ++ skipn (Z.to_nat (off + len)) q).
Proof. exact delete_bytes_spec. Qed.
Print Assumptions C03_bytes_delete.

(* every surviving feature denotes exactly its former residues minus the
   removed ones [i,i+n), re-based, same order and strand; a location that lost
   all residues denotes nothing (it is the between-site produced by the code).
   del_den i n d = map (unbump i n) (filter (outside i n) d).
   PARTIAL: same domain as C02 (no join(...) in the input). *)
Theorem C03_expand_neg_den_partial : forall i n, 0 < n -> forall l,
  jfree l = true -> ord_ok l = true ->
  exists l', expand l i (- n) = Ok l' /\ den l' = del_den i n (den l) /\ ord_ok l' = true.
Proof. exact expand_neg_den_jfree. Qed.
Print Assumptions C03_expand_neg_den_partial.

Example C03_example :
  let l := Complemented (Ordered [Ranged 1 5 false false; Point 6]) in
  jfree l = true /\ ord_ok l = true /\
  expand l 3 (- 3) = Ok (Complemented (Ordered [Ranged 1 3 false true; Point 3])) /\
  del_den 3 3 (den l) = [(3, true); (2, true); (1, true)].
Proof. vm_compute. repeat split; reflexivity. Qed.

(* the same statement for EVERY location (joins included), up to adjacent
   duplicates, whenever the images of the leaves are k1-free (see C02); when a
   deletion makes a point land on the end of a range the code does lose that
   base: known finding K1. *)
Theorem C03_expand_neg_den_joins : forall i n, 0 < n -> forall l,
  k1_after (fun x => expand x i (- n)) l ->
  forall l', expand l i (- n) = Ok l' -> deq (den l') (del_den i n (den l)).
Proof. exact expand_neg_den_all. Qed.
Print Assumptions C03_expand_neg_den_joins.

Example C03_joins_example :
  let l := Joined [Ranged 0 3 false false; Ranged 5 9 false false; Point 11] in
  k1_afterb (fun x => expand x 3 (- 2)) l = true /\
  expand l 3 (- 2) = Ok (Joined [Ranged 0 7 false false; Point 9]) /\
  k1_afterb (fun x => expand x 9 (- 2)) l = false.   (* the K1 shape: Point 11 lands on the end 9 *)
Proof. vm_compute. repeat split; reflexivity. Qed.

(* Slice [s,e) of a sequence of length L maps every kept location through
   Expand(e, e-L) then Expand(0, -s).  For every location without join(...):
   both steps succeed and the result denotes the two deletions of what it
   denoted; for positions inside the sequence that is exactly the residues in
   the window [s,e), re-based to 0, in the same order and on the same strand.
   PARTIAL: join(...) in the input and the wrap-around window (a rotation
   first) are decided by the correspondence and the oracle. *)
Theorem C03_slice_den_partial : forall s e L, 0 <= s -> e <= L -> forall l,
  jfree l = true -> ord_ok l = true ->
  exists l1 l2, expand l e (e - L) = Ok l1 /\ expand l1 0 (- s) = Ok l2 /\
    den l2 = del_den 0 s (del_den e (L - e) (den l)) /\ jfree l2 = true /\ ord_ok l2 = true.
Proof. exact slice_loc_den. Qed.
Print Assumptions C03_slice_den_partial.

Theorem C03_slice_window : forall s e L d, 0 <= s <= e -> e <= L ->
  Forall (fun x => 0 <= fst x < L) d ->
  del_den 0 s (del_den e (L - e) d) =
  map (onpos (fun x => x - s)) (filter (fun x => (s <=? fst x) && (fst x <? e)) d).
Proof. exact slice_window_den. Qed.
Print Assumptions C03_slice_window.

(* the metadata clause: REFERENCE base ranges of a slice (GenBankFields.Slice,
   model refs_slice).  A kept range is the old range cut to the window and
   re-based, never empty and never outside the slice; a range is kept exactly
   when it shares a base with the window (so nothing survives an empty
   window); the kept references are numbered 1, 2, 3, ... *)
From GTS Require Import GenBank GenBankProofs.
Theorem C03_reference_range_clipped : forall start end_ s e, start <= end_ -> s < e ->
  kept start end_ s e = true ->
  let h := go_Max 0 (s - start) in let t := go_Min (end_ - start) (e - start) in
  h + start = Z.max s start /\ t + start = Z.min e end_ /\ 0 <= h < t /\ t <= end_ - start.
Proof. exact clip_is_intersection. Qed.
Print Assumptions C03_reference_range_clipped.

Theorem C03_reference_kept_iff_overlapping : forall start end_ s e, start <= end_ -> s < e ->
  kept start end_ s e = true <-> (Z.max s start < Z.min e end_).
Proof. exact kept_only_overlapping. Qed.
Print Assumptions C03_reference_kept_iff_overlapping.

Theorem C03_reference_dropped_iff_disjoint : forall start end_ locs,
  clip_ranges start end_ locs = [] <-> Forall (fun '(s, e) => kept start end_ s e = false) locs.
Proof. exact clip_empty_iff. Qed.
Print Assumptions C03_reference_dropped_iff_disjoint.

Theorem C03_references_renumbered : forall mol start end_ refs rs,
  refs_slice mol start end_ refs = Ok rs -> map r_number rs = zrange 1 (1 + zlen rs).
Proof. exact refs_slice_numbered. Qed.
Print Assumptions C03_references_renumbered.

(* Whole records.  Delete of [off, off+len): whenever every location is free of
   the K1 shapes after Expand(off,-len) and the operation returns a location
   (del_ok; true of every join-free location by the theorem above), the call
   succeeds, the residues are seq[:off] + seq[off+len:], the table keeps its
   order and every feature its key and qualifiers (relocate), and every
   feature denotes its former residues minus the removed ones, re-based. *)
Theorem C03_delete_record : forall s off len, 0 <= off -> 0 < len -> off + len <= zlen (residues s) ->
  Forall (del_ok off len) (feats s) ->
  exists ls, seq_delete s off len =
      Ok (mkseq (relocate (feats s) ls)
                (firstn (Z.to_nat off) (residues s) ++ skipn (Z.to_nat (off + len)) (residues s))) /\
    Forall2 (fun f l => deq (den l) (del_den off len (den (floc f)))) (feats s) ls.
Proof. exact seq_delete_features. Qed.
Print Assumptions C03_delete_record.

Example C03_record_hypotheses_met :
  let s := mkseq [mkfeat [115] (Ranged 0 9 false false) [];
                  mkfeat [103] (Complemented (Joined [Ranged 1 3 true false; Ranged 4 7 false false])) [];
                  mkfeat [112] (Point 5) []] [97; 99; 103; 116; 97; 99; 103; 116; 97] in
  Forall (del_ok 2 4) (feats s) /\
  seq_delete s 2 4 =
    Ok (mkseq [mkfeat [115] (Ranged 0 5 false false) [];
               mkfeat [103] (Complemented (Ranged 1 3 true false)) [];
               mkfeat [112] (Between 2) []] [97; 99; 103; 116; 97]).
Proof.
  cbv zeta. cbn [feats].
  repeat match goal with
  | |- _ /\ _ => split
  | |- Forall _ (_ :: _) => constructor
  | |- Forall _ [] => constructor
  | |- del_ok _ _ _ => split
  | |- k1_after _ _ => apply k1_afterb_spec; vm_compute; reflexivity
  | |- exists _, _ => eexists; vm_compute; reflexivity
  end.
  vm_compute. reflexivity.
Qed.

(* Erase: the same on the table without the features that lie within the
   removed stretch (a feature that lost all residues is dropped); source
   features always stay. *)
Theorem C03_erase_record : forall s off len, 0 <= off -> 0 < len -> off + len <= zlen (residues s) ->
  Forall (del_ok off len) (filter (erase_keep off len) (feats s)) ->
  exists ls, seq_erase s off len =
      Ok (mkseq (relocate (filter (erase_keep off len) (feats s)) ls)
                (firstn (Z.to_nat off) (residues s) ++ skipn (Z.to_nat (off + len)) (residues s))) /\
    Forall2 (fun f l => deq (den l) (del_den off len (den (floc f)))) (filter (erase_keep off len) (feats s)) ls.
Proof. exact seq_erase_features. Qed.
Print Assumptions C03_erase_record.

(* Slice [s,e) with 0 <= s <= e <= L of a record whose locations hold no
   join(...) and lie inside the sequence: the call succeeds; the residues are
   exactly the window; the table holds exactly the features that overlap the
   window (the others are dropped), in their order, key and qualifiers
   unchanged; and every one of them denotes exactly its former residues inside
   the window, re-based to 0, same order and strand -- so no location refers
   to a residue outside the new sequence.  (Source features are made complete,
   which does not change what they denote.)
   PARTIAL: join(...) in the input and the wrap-around window by correspondence. *)
Theorem C03_slice_record_partial : forall sq s e, let L := zlen (residues sq) in 0 <= s <= e -> e <= L ->
  Forall (slice_ok L) (feats sq) ->
  let kept := filter (fun g => loc_overlap (floc g) s e) (feats sq) in
  exists ls, seq_slice sq s e = Ok (mkseq (relocate kept ls) (lslice s e (residues sq))) /\
    Forall2 (fun f l => den l = map (onpos (fun x => x - s)) (filter (inwin (s, e)) (den (floc f)))) kept ls.
Proof. exact seq_slice_features. Qed.
Print Assumptions C03_slice_record_partial.

Example C03_slice_record_hypotheses_met :
  let sq := mkseq [mkfeat [115; 111; 117; 114; 99; 101] (Ranged 0 9 false false) [];
                   mkfeat [103] (Complemented (Ordered [Ranged 6 9 true false; Ranged 1 4 false false])) [];
                   mkfeat [112] (Point 1) []] [97; 99; 103; 116; 97; 99; 103; 116; 97] in
  Forall (slice_ok 9) (feats sq) /\
  seq_slice sq 3 7 =
    Ok (mkseq [mkfeat [115; 111; 117; 114; 99; 101] (Ranged 0 4 false false) [];
               mkfeat [103] (Complemented (Ordered [Ranged 3 4 true true; Ranged 0 1 true false])) []]
              [116; 97; 99; 103]).
Proof.
  cbv zeta. cbn [feats]. split; [|vm_compute; reflexivity].
  repeat constructor; cbn; lia.
Qed.

(* an end whose residues were cut off becomes partial: Delete of [i,i+n) on a
   range of which some residue survives gives a range whose 5' marker is set
   iff it was set or the first residue was removed, and whose 3' marker is set
   iff it was set or the last residue was removed *)
Theorem C03_cut_ends_become_partial : forall s e p5 p3 i n, 0 < n -> s < e -> ~ (i <= s /\ e <= i + n) ->
  exists s' e', s' < e' /\
    expand (Ranged s e p5 p3) i (- n) =
    Ok (Ranged s' e' (p5 || ((i <=? s) && (s <? i + n))) (p3 || ((i <? e) && (e <=? i + n)))).
Proof. exact delete_marks_cut_ends. Qed.
Print Assumptions C03_cut_ends_become_partial.
