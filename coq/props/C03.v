(* C03 — Delete/Erase/Slice remove exactly the requested residues and features
   follow.  Delete maps every location through Expand(i, -n); Slice through
   Expand(end, end-len) then Expand(0, -start). *)
From GTS Require Import Base Arith Loc Seq BaseLemmas LocProofs EditProofs SeqProofs.
Open Scope Z_scope.

(* residues: seq[:i] + seq[i+n:] *)
Theorem C03_bytes_delete : forall q off len, 0 <= off -> 0 <= len -> off + len <= zlen q ->
  delete_bytes q off len = Ok (firstn (Z.to_nat off) q ++ skipn (Z.to_nat (off + len)) q).
Proof. exact delete_bytes_spec. Qed.
Print Assumptions C03_bytes_delete.

(* every surviving feature denotes exactly its former residues minus the
   removed ones [i,i+n), re-based, same order and strand; a location that lost
   all residues denotes nothing (it is the between-site produced by the code).
   del_den i n d = map (unbump i n) (filter (outside i n) d).
   PARTIAL: same domain as C02 (no join(...) in the input). *)
Theorem C03_expand_neg_den_partial : forall i n, 0 < n -> forall l,
  jfree l = true -> ord_ok l = true ->
  exists l', expand l i (- n) = Ok l' /\ den l' = del_den i n (den l) /\ ord_ok l' = true.
Proof. exact expand_neg_den_jfree. Qed.
Print Assumptions C03_expand_neg_den_partial.

Example C03_example :
  let l := Complemented (Ordered [Ranged 1 5 false false; Point 6]) in
  jfree l = true /\ ord_ok l = true /\
  expand l 3 (- 3) = Ok (Complemented (Ordered [Ranged 1 3 false true; Point 3])) /\
  del_den 3 3 (den l) = [(3, true); (2, true); (1, true)].
Proof. vm_compute. repeat split; reflexivity. Qed.
