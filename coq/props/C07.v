(* C07 — parsers are total.  The reader model returns Ok, Err, Panic (a Go
   run-time panic) or OutOfFuel (the loop bound derived from the input length
   ran out).  The theorems below say that Panic is unreachable, for every
   input; they are proved with a Hoare logic over the pars model
   (proofs/Safety.v) whose invariant is the shape of the backtracking stack.
   input_bound = 10^9 - 1 bytes: the ORIGIN validators print the line index
   with "%9d" and size the block for nine columns, so the statements are about
   inputs below a gigabyte (beyond it validateOrigin can index past its buffer). *)
From GTS Require Import Base Arith Pars Loc LocParse Insdc Origin GenBank Fasta
     GenBankProofs ParsLemmas Safety JoinSafe LocSafe OriginSafe ReaderSafe.
Open Scope Z_scope.

(* AsDate returns a date or an error for every string *)
Theorem C07_date_total : forall s, as_date s <> Panic /\ as_date s <> OutOfFuel.
Proof. exact as_date_total. Qed.
Print Assumptions C07_date_total.

(* gts.AsLocation and the locator's tryLocation never panic, whatever the
   string: Join/Order are only ever handed non-empty lists of locations that
   contain no empty join *)
Theorem C07_location_no_panic : forall s, zlen s <= input_bound -> as_location s <> Panic.
Proof. exact as_location_no_panic. Qed.
Print Assumptions C07_location_no_panic.

Theorem C07_try_location_no_panic : forall s, zlen s <= input_bound -> try_location s <> Panic.
Proof. exact try_location_no_panic. Qed.
Print Assumptions C07_try_location_no_panic.

(* the FASTA scanner and the feature-table parser never panic *)
Theorem C07_fasta_scan_no_panic : forall input, zlen input <= input_bound -> scan_fasta input <> Panic.
Proof. exact scan_fasta_no_panic. Qed.
Print Assumptions C07_fasta_scan_no_panic.

Theorem C07_table_parser_no_panic : forall reg input, zlen input <= input_bound ->
  fst (table_parser [] reg (st_of input)) <> Panic.
Proof. exact table_parser_no_panic. Qed.
Print Assumptions C07_table_parser_no_panic.

(* the GenBank scanner and the auto-detecting scanner never panic.  This
   includes the hand-indexed ORIGIN validators: once Request(toOriginLength(n))
   succeeded, validateOrigin and the slow line-by-line reader stay inside the
   buffer (OriginSafe.v), for every declared length n *)
Theorem C07_genbank_scan_no_panic : forall reg input, zlen input <= input_bound ->
  scan_genbank reg input <> Panic /\ auto_scan reg input <> Panic.
Proof. intros reg input Hb. split; [apply scan_genbank_no_panic|apply auto_scan_no_panic]; assumption. Qed.
Print Assumptions C07_genbank_scan_no_panic.

Theorem C07_origin_validator_in_bounds : forall p len, 0 <= len < 10 ^ 9 ->
  zlen p = go_toOriginLength len -> validate_origin p len <> Panic.
Proof. exact validate_origin_no_panic. Qed.
Print Assumptions C07_origin_validator_in_bounds.

(* the ORIGIN reader asks for toOriginLength(declared length) bytes; the model
   computes that request without building the number in unary, and the
   shortcut is the same function *)
Theorem C07_request_z : forall n s, request_z n s = request n s.
Proof. exact request_z_eq. Qed.
Print Assumptions C07_request_z.

(* the modifier and locator interpreters (AsModifier, AsLocator): no input makes
   them panic.  AsLocator = modifier, else point/range/complement location, else
   selector (regexp compilation is a parameter), with the '@' composition. *)
From GTS Require Import ModParse Select Locator ModSafe.
Theorem C07_modifier_no_panic : forall s, zlen s <= input_bound -> as_modifier s <> Panic.
Proof. exact as_modifier_no_panic. Qed.
Print Assumptions C07_modifier_no_panic.

Theorem C07_locator_no_panic : forall re_ok s, zlen s <= input_bound -> as_locator re_ok s <> Panic.
Proof. exact as_locator_no_panic. Qed.
Print Assumptions C07_locator_no_panic.
