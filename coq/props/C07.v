(* C07 — parsers are total.  The reader model returns Ok, Err, Panic (a Go
   run-time panic) or OutOfFuel (the loop bound derived from the input length
   ran out); totality is the absence of the last two. *)
From GTS Require Import Base Arith Pars GenBank GenBankProofs ParsLemmas.
Open Scope Z_scope.

(* AsDate returns a date or an error for every string *)
Theorem C07_date_total : forall s, as_date s <> Panic /\ as_date s <> OutOfFuel.
Proof. exact as_date_total. Qed.
Print Assumptions C07_date_total.

(* the ORIGIN reader asks for toOriginLength(declared length) bytes; the model
   computes that request without building the number in unary, and the
   shortcut is the same function *)
Theorem C07_request_z : forall n s, request_z n s = request n s.
Proof. exact request_z_eq. Qed.
Print Assumptions C07_request_z.
