(* C13 — A cache entry is returned only if it is exactly what was written.
   Every statement is closed: it quantifies over EVERY hash function H with
   outputs of hsz bytes and EVERY compressor with inflate (deflate x) = Some x
   (crypto/sha1 and compress/flate are not modelled; collision resistance is
   never assumed -- where it would be needed the conclusion offers an explicit
   collision instead). *)
From GTS Require Import Base Cache CacheProofs.
Open Scope Z_scope.

Theorem C13_open_exact : forall hsz H rsum dsum f body,
  open_body hsz H rsum dsum f = Some body -> f = rsum ++ dsum ++ H body ++ body.
Proof. exact open_exact. Qed.
Print Assumptions C13_open_exact.

Theorem C13_roundtrip : forall hsz H deflate inflate,
  (forall x, length (H x) = hsz) -> (forall x, inflate (deflate x) = Some x) ->
  forall rsum dsum data, length rsum = hsz -> length dsum = hsz ->
  open_entry hsz H inflate rsum dsum (final_file H deflate rsum dsum data) = Some data.
Proof. exact roundtrip. Qed.
Print Assumptions C13_roundtrip.

Theorem C13_wrong_key : forall hsz H deflate inflate,
  (forall x, length (H x) = hsz) ->
  forall rsum dsum rsum' dsum' data,
  length rsum = hsz -> length dsum = hsz -> length rsum' = hsz -> length dsum' = hsz ->
  (rsum', dsum') <> (rsum, dsum) ->
  open_entry hsz H inflate rsum' dsum' (final_file H deflate rsum dsum data) = None.
Proof. exact wrong_key. Qed.
Print Assumptions C13_wrong_key.

Theorem C13_single_byte : forall hsz H deflate,
  (forall x, length (H x) = hsz) ->
  forall rsum dsum data f, length rsum = hsz -> length dsum = hsz ->
  differ_at_one f (final_file H deflate rsum dsum data) ->
  open_body hsz H rsum dsum f = None \/ collision H.
Proof. exact single_byte. Qed.
Print Assumptions C13_single_byte.

Theorem C13_truncation : forall hsz H deflate,
  (forall x, length (H x) = hsz) ->
  forall rsum dsum data k, length rsum = hsz -> length dsum = hsz ->
  (k < length (final_file H deflate rsum dsum data))%nat ->
  open_body hsz H rsum dsum (firstn k (final_file H deflate rsum dsum data)) = None \/ collision H.
Proof. exact truncation. Qed.
Print Assumptions C13_truncation.

Theorem C13_extension : forall hsz H deflate,
  (forall x, length (H x) = hsz) ->
  forall rsum dsum data tail, length rsum = hsz -> length dsum = hsz -> tail <> [] ->
  open_body hsz H rsum dsum (final_file H deflate rsum dsum data ++ tail) = None \/ collision H.
Proof. exact extension. Qed.
Print Assumptions C13_extension.

(* every crash point of the write protocol (placeholder header + any bytes of
   the body stream; full body + any prefix of the final header): Open fails, or
   the disk state is byte-identical to the finished file, or the two key
   digests and the body digest are all zero bytes *)
Theorem C13_crash_points : forall hsz H deflate inflate,
  (forall x, length (H x) = hsz) ->
  forall rsum dsum data k body' b,
  length rsum = hsz -> length dsum = hsz -> (k <= 3 * hsz)%nat ->
  (k = O \/ body' = deflate data) ->
  open_entry hsz H inflate rsum dsum (crash_state hsz H deflate rsum dsum data k body') = Some b ->
  crash_state hsz H deflate rsum dsum data k body' = final_file H deflate rsum dsum data \/
  (rsum = repeat 0 hsz /\ dsum = repeat 0 hsz /\ H body' = repeat 0 hsz).
Proof. exact crash_points. Qed.
Print Assumptions C13_crash_points.

(* non-vacuity with a toy hash (sum of bytes, 1 byte) and identity compressor *)
Example C13_example :
  let H := fun x : list byte => [fold_right Z.add 0 x mod 256] in
  let id := fun x : list byte => x in
  open_entry 1 H (fun x => Some x) [7] [9] (final_file H id [7] [9] [1; 2; 3]) = Some [1; 2; 3] /\
  open_entry 1 H (fun x => Some x) [7] [9] [7; 9; 6; 1; 2; 4] = None /\
  open_entry 1 H (fun x => Some x) [7] [9] [7; 9; 6; 3; 2; 1] = Some [3; 2; 1].
Proof. vm_compute. repeat split; reflexivity. Qed.
