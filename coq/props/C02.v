(* C02 — Insert/Embed place the guest exactly and every feature keeps its
   residues.  Statements only; proofs are `exact <lemma>`.
   Host locations go through Shift (Insert) or Expand (Embed); guest locations
   through Expand(0, i).  `den` is the ordered, stranded list of denoted
   residues (model/Loc.v), `bump i n` moves positions at or after i by n. *)
From GTS Require Import Base Arith Loc Seq BaseLemmas LocProofs EditProofs SeqProofs JoinDen JoinLift RotateProofs RotateJoin InsertSeq PartialProofs.
From Coq Require Import Permutation.
Open Scope Z_scope.

(* residues: host[:i] + guest + host[i:], and a panic outside 0..len(host) *)
Theorem C02_bytes : forall p i q, 0 <= i <= zlen p ->
  insert_bytes p i q = Ok (firstn (Z.to_nat i) p ++ q ++ skipn (Z.to_nat i) p).
Proof. exact insert_bytes_spec. Qed.
Print Assumptions C02_bytes.

(* Insert: a host feature denotes exactly its former residues, moved past the
   guest, same order and strand (a location spanning i is split into a join /
   order around the guest: that case is inside the proof).
   PARTIAL: proved for locations built from between-sites, points, (partial)
   ranges, ambiguous spans, order(...) and complement(...) nested to any depth;
   join(...) in the INPUT is covered by the correspondence and oracle only. *)
Theorem C02_shift_den_partial : forall i n, 0 <= n -> forall l,
  jfree l = true -> ord_ok l = true ->
  exists l', shift l i n = Ok l' /\
             den l' = map (onpos (bump i n)) (den l) /\ ord_ok l' = true.
Proof. exact shift_den_jfree. Qed.
Print Assumptions C02_shift_den_partial.

(* Embed: the residues of the result outside the guest interval [i,i+n) are
   exactly the former residues moved past the guest (the feature is extended
   over the guest instead of split).  Same PARTIAL domain. *)
Theorem C02_expand_den_partial : forall i n, 0 < n -> forall l,
  jfree l = true -> ord_ok l = true ->
  exists l', expand l i n = Ok l' /\
             emb_den i n (den l') = map (onpos (bump i n)) (den l) /\ ord_ok l' = true.
Proof. exact expand_pos_den_jfree. Qed.
Print Assumptions C02_expand_den_partial.

(* non-vacuity: a partial range spanning i=4 under complement, inside an order *)
Example C02_example :
  let l := Ordered [Complemented (Ranged 2 6 true false); Point 7] in
  jfree l = true /\ ord_ok l = true /\
  shift l 4 3 = Ok (Ordered [Complemented (Joined [Ranged 2 4 true false; Ranged 7 9 false false]); Point 10]).
Proof. vm_compute. repeat split; reflexivity. Qed.

(* The same two statements for EVERY location: join(...), order(...) and
   complement(...) nested to any depth.  deq = equal up to dropping adjacent
   duplicates (what Join itself does to a repeated base).  The hypothesis
   k1_after says that among the images of the location's leaves no point lands
   on the end coordinate of a range and no range is empty: exactly the pattern
   (K1) on which Join is known to lose a base.  Partial correctness (whenever
   the operation returns a location); success itself is proved above for the
   join-free case and, for joins, Join is proved never to panic (C07). *)
Theorem C02_shift_den_joins : forall i n, 0 <= n -> forall l,
  k1_after (fun x => shift x i n) l ->
  forall l', shift l i n = Ok l' -> deq (den l') (map (onpos (bump i n)) (den l)).
Proof. exact shift_den_all. Qed.
Print Assumptions C02_shift_den_joins.

Theorem C02_expand_den_joins : forall i n, 0 < n -> forall l,
  k1_after (fun x => expand x i n) l ->
  forall l', expand l i n = Ok l' -> deq (emb_den i n (den l')) (map (onpos (bump i n)) (den l)).
Proof. exact expand_pos_den_all. Qed.
Print Assumptions C02_expand_den_joins.

(* a join whose second part spans the insertion point and whose parts abut *)
Example C02_joins_example :
  let l := Joined [Ranged 0 2 true false; Complemented (Joined [Ranged 3 6 false false; Point 8])] in
  k1_afterb (fun x => shift x 4 3) l = true /\
  shift l 4 3 = Ok (Joined [Ranged 0 2 true false;
                            Complemented (Joined [Ranged 3 4 false false; Ranged 7 9 false false; Point 11])]).
Proof. vm_compute. split; reflexivity. Qed.

(* Whole records.  Insert (Embed) of a guest at index i of a host: whenever
   every location involved is free of the K1 shapes after its operation and
   the operation returns a location (ins_host_ok / emb_host_ok / guest_ok; the
   join-free case satisfies both by the theorems above), the call succeeds,
   the residues are host[:i] + guest + host[i:], and the output table is a
   permutation of  host features ++ guest features  in which every feature
   occurs exactly once with its key and qualifiers (relocate changes the
   location only); a host feature denotes its former residues moved past the
   guest, a guest feature the residues it denoted in the guest, moved to i
   (deq: up to adjacent duplicates, as Join itself reduces them).
   M is any bound above the guest's coordinates (it only says that ambiguous
   spans and ranges of the guest are ordinary ones). *)
Theorem C02_insert_record : forall host i guest M,
  let n := zlen (residues guest) in 0 <= i <= zlen (residues host) ->
  Forall (ins_host_ok i n) (feats host) -> Forall (guest_ok i M) (feats guest) ->
  exists gg ls ms,
    seq_insert host i guest = Ok (mkseq gg (firstn (Z.to_nat i) (residues host) ++ residues guest ++ skipn (Z.to_nat i) (residues host))) /\
    Forall2 (fun f l => deq (den l) (map (onpos (bump i n)) (den (floc f)))) (feats host) ls /\
    Forall2 (fun g l => deq (den l) (map (onpos (fun x => x + i)) (den (floc g)))) (feats guest) ms /\
    Permutation gg (relocate (feats host) ls ++ relocate (feats guest) ms).
Proof. exact seq_insert_features. Qed.
Print Assumptions C02_insert_record.

Theorem C02_embed_record : forall host i guest M,
  let n := zlen (residues guest) in 0 <= i <= zlen (residues host) -> 0 < n ->
  Forall (emb_host_ok i n) (feats host) -> Forall (guest_ok i M) (feats guest) ->
  exists gg ls ms,
    seq_embed host i guest = Ok (mkseq gg (firstn (Z.to_nat i) (residues host) ++ residues guest ++ skipn (Z.to_nat i) (residues host))) /\
    Forall2 (fun f l => deq (emb_den i n (den l)) (map (onpos (bump i n)) (den (floc f)))) (feats host) ls /\
    Forall2 (fun g l => deq (den l) (map (onpos (fun x => x + i)) (den (floc g)))) (feats guest) ms /\
    Permutation gg (relocate (feats host) ls ++ relocate (feats guest) ms).
Proof. exact seq_embed_features. Qed.
Print Assumptions C02_embed_record.

(* the hypotheses are met by a host with a source, a spliced reverse-strand
   gene spanning the insertion point and a point, and a guest with a range *)
Example C02_record_hypotheses_met :
  let host := mkseq [mkfeat [115] (Ranged 0 9 false false) [];
                     mkfeat [103] (Complemented (Joined [Ranged 1 3 true false; Ranged 4 7 false false])) [];
                     mkfeat [112] (Point 8) []] [97; 99; 103; 116; 97; 99; 103; 116; 97] in
  let guest := mkseq [mkfeat [120] (Ranged 0 2 false true) []] [110; 110; 110] in
  Forall (ins_host_ok 5 3) (feats host) /\ Forall (emb_host_ok 5 3) (feats host) /\ Forall (guest_ok 5 100) (feats guest) /\
  seq_insert host 5 guest =
    Ok (mkseq [mkfeat [115] (Joined [Ranged 0 5 false false; Ranged 8 12 false false]) [];
               mkfeat [103] (Complemented (Joined [Ranged 1 3 true false; Ranged 4 5 false false; Ranged 8 10 false false])) [];
               mkfeat [120] (Ranged 5 7 false true) [];
               mkfeat [112] (Point 11) []]
              [97; 99; 103; 116; 97; 110; 110; 110; 99; 103; 116; 97]).
Proof.
  cbv zeta. cbn [feats].
  repeat match goal with
  | |- _ /\ _ => split
  | |- Forall _ (_ :: _) => constructor
  | |- Forall _ [] => constructor
  | |- ins_host_ok _ _ _ => split
  | |- emb_host_ok _ _ _ => split
  | |- guest_ok _ _ _ => split; [vm_compute; reflexivity|split]
  | |- k1_after _ _ => apply k1_afterb_spec; vm_compute; reflexivity
  | |- exists _, _ => eexists; vm_compute; reflexivity
  end.
  vm_compute. reflexivity.
Qed.

(* 5'/3' partial markers stay on the same outer ends.  flags l = (marker on the
   first end, marker on the last end) in the reading direction of l (a
   complement reads the other way round; of a multi-part location the first
   part's first end and the last part's last end).  For every location without
   join(...) in the input whose ranges are non-empty: Insert (Shift) and Embed
   (Expand, n > 0) leave both markers where they were -- also when a range is
   split around the guest (the 5' marker stays on the part before it, the 3'
   marker on the part after it) and when nested orders are flattened.
   PARTIAL: join(...) in the input by correspondence + oracle. *)
Theorem C02_insert_keeps_markers_partial : forall i n, 0 <= n -> forall l,
  jfree l = true -> ord_ok l = true -> wf_all range_wf l = true ->
  forall l', shift l i n = Ok l' -> flags l' = flags l.
Proof. exact shift_keeps_markers. Qed.
Print Assumptions C02_insert_keeps_markers_partial.

Theorem C02_embed_keeps_markers_partial : forall i n, 0 < n -> forall l,
  jfree l = true -> ord_ok l = true -> wf_all range_wf l = true ->
  forall l', expand l i n = Ok l' -> flags l' = flags l.
Proof. exact embed_keeps_markers. Qed.
Print Assumptions C02_embed_keeps_markers_partial.

Example C02_markers_example :
  let l := Complemented (Ordered [Ranged 2 6 true false; Ordered [Point 7; Ranged 8 9 false true]]) in
  flags l = (true, true) /\
  shift l 4 3 = Ok (Complemented (Ordered [Joined [Ranged 2 4 true false; Ranged 7 9 false false]; Point 10; Ranged 11 12 false true])) /\
  flags (Complemented (Ordered [Joined [Ranged 2 4 true false; Ranged 7 9 false false]; Point 10; Ranged 11 12 false true])) = (true, true).
Proof. vm_compute. repeat split; reflexivity. Qed.
