(* C02 — Insert/Embed place the guest exactly and every feature keeps its
   residues.  Statements only; proofs are `exact <lemma>`.
   Host locations go through Shift (Insert) or Expand (Embed); guest locations
   through Expand(0, i).  `den` is the ordered, stranded list of denoted
   residues (model/Loc.v), `bump i n` moves positions at or after i by n. *)
From GTS Require Import Base Arith Loc Seq BaseLemmas LocProofs EditProofs SeqProofs JoinDen JoinLift.
Open Scope Z_scope.

(* residues: host[:i] + guest + host[i:], and a panic outside 0..len(host) *)
Theorem C02_bytes : forall p i q, 0 <= i <= zlen p ->
  insert_bytes p i q = Ok (firstn (Z.to_nat i) p ++ q ++ skipn (Z.to_nat i) p).
Proof. exact insert_bytes_spec. Qed.
Print Assumptions C02_bytes.

(* Insert: a host feature denotes exactly its former residues, moved past the
   guest, same order and strand (a location spanning i is split into a join /
   order around the guest: that case is inside the proof).
   PARTIAL: proved for locations built from between-sites, points, (partial)
   ranges, ambiguous spans, order(...) and complement(...) nested to any depth;
   join(...) in the INPUT is covered by the correspondence and oracle only. *)
Theorem C02_shift_den_partial : forall i n, 0 <= n -> forall l,
  jfree l = true -> ord_ok l = true ->
  exists l', shift l i n = Ok l' /\
             den l' = map (onpos (bump i n)) (den l) /\ ord_ok l' = true.
Proof. exact shift_den_jfree. Qed.
Print Assumptions C02_shift_den_partial.

(* Embed: the residues of the result outside the guest interval [i,i+n) are
   exactly the former residues moved past the guest (the feature is extended
   over the guest instead of split).  Same PARTIAL domain. *)
Theorem C02_expand_den_partial : forall i n, 0 < n -> forall l,
  jfree l = true -> ord_ok l = true ->
  exists l', expand l i n = Ok l' /\
             emb_den i n (den l') = map (onpos (bump i n)) (den l) /\ ord_ok l' = true.
Proof. exact expand_pos_den_jfree. Qed.
Print Assumptions C02_expand_den_partial.

(* non-vacuity: a partial range spanning i=4 under complement, inside an order *)
Example C02_example :
  let l := Ordered [Complemented (Ranged 2 6 true false); Point 7] in
  jfree l = true /\ ord_ok l = true /\
  shift l 4 3 = Ok (Ordered [Complemented (Joined [Ranged 2 4 true false; Ranged 7 9 false false]); Point 10]).
Proof. vm_compute. repeat split; reflexivity. Qed.

(* The same two statements for EVERY location: join(...), order(...) and
   complement(...) nested to any depth.  deq = equal up to dropping adjacent
   duplicates (what Join itself does to a repeated base).  The hypothesis
   k1_after says that among the images of the location's leaves no point lands
   on the end coordinate of a range and no range is empty: exactly the pattern
   (K1) on which Join is known to lose a base.  Partial correctness (whenever
   the operation returns a location); success itself is proved above for the
   join-free case and, for joins, Join is proved never to panic (C07). *)
Theorem C02_shift_den_joins : forall i n, 0 <= n -> forall l,
  k1_after (fun x => shift x i n) l ->
  forall l', shift l i n = Ok l' -> deq (den l') (map (onpos (bump i n)) (den l)).
Proof. exact shift_den_all. Qed.
Print Assumptions C02_shift_den_joins.

Theorem C02_expand_den_joins : forall i n, 0 < n -> forall l,
  k1_after (fun x => expand x i n) l ->
  forall l', expand l i n = Ok l' -> deq (emb_den i n (den l')) (map (onpos (bump i n)) (den l)).
Proof. exact expand_pos_den_all. Qed.
Print Assumptions C02_expand_den_joins.

(* a join whose second part spans the insertion point and whose parts abut *)
Example C02_joins_example :
  let l := Joined [Ranged 0 2 true false; Complemented (Joined [Ranged 3 6 false false; Point 8])] in
  k1_afterb (fun x => shift x 4 3) l = true /\
  shift l 4 3 = Ok (Joined [Ranged 0 2 true false;
                            Complemented (Joined [Ranged 3 4 false false; Ranged 7 9 false false; Point 11])]).
Proof. vm_compute. split; reflexivity. Qed.
