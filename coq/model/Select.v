(* Select.v — model of the feature filters and selectors of /repo/feature.go
   (Key, Qualifier, And/Or/Not, Within/Overlap, Forward/ReverseStrand,
   shiftSelector, toQualifier, Selector, FeatureSlice.Filter) and of the Props
   helpers they use (/repo/props.go).  regexp is a parameter: [re_ok] says
   whether a pattern compiles, [re_match] is MatchString (unanchored search). *)
From GTS Require Import Base Arith Loc Seq.
Open Scope Z_scope.

Section Select.
  Variable re_ok : list byte -> bool.
  Variable re_match : list byte -> list byte -> bool.

  (* Props.Index / Get / Has: the first entry whose [0] is the name *)
  Fixpoint props_get (ps : props) (name : list byte) : option (list (list byte)) :=
    match ps with
    | [] => None
    | p :: t =>
      match p with
      | k :: vs => if bytes_eqb k name then Some vs else props_get t name
      | [] => props_get t name (* props[i][0] would panic; outside the domain *)
      end
    end.

  Inductive filt :=
  | FTrue | FFalse
  | FAnd (l : list filt) | FOr (l : list filt) | FNot (f : filt)
  | FWithin (lo up : Z) | FOverlap (lo up : Z)
  | FKey (k : list byte)
  | FQual (name query : list byte)
  | FFwd | FRev.

  (* the closure returned by Qualifier(name, query) *)
  Definition qual_eval (name query : list byte) (f : feature) : bool :=
    match name with
    | [] => existsb (fun p => existsb (re_match query) (tl p)) (fprops f)
            (* `for _, vv := range f.Props { for _, v := range vv[1:]`: values only *)
    | _ =>
      match query with
      | [] => match props_get (fprops f) name with Some _ => true | None => false end
      | _ => match props_get (fprops f) name with
             | Some vs => existsb (re_match query) vs
             | None => false
             end
      end
    end.

  Fixpoint feval (p : filt) (f : feature) : bool :=
    match p with
    | FTrue => true
    | FFalse => false
    | FAnd l => forallb (fun q => feval q f) l        (* And() of nothing = TrueFilter *)
    | FOr l => match l with [] => true | _ => existsb (fun q => feval q f) l end
    | FNot q => negb (feval q f)
    | FWithin lo up => loc_within (floc f) lo up
    | FOverlap lo up => loc_overlap (floc f) lo up
    | FKey k => match k with [] => true | _ => bytes_eqb (fkey f) k end
    | FQual name query => qual_eval name query f
    | FFwd => check_strand (floc f) =? 1
    | FRev => check_strand (floc f) =? 2
    end.

  (* shiftSelector: split at the first '/' not preceded by an escape; note the
     escape flag is NOT cleared by an escaped '/' *)
  Fixpoint shift_selector (s : list byte) (esc : bool) (acc : list byte) : list byte * list byte :=
    match s with
    | [] => (rev acc, [])
    | c :: t =>
      if c =? 92 then shift_selector t true (c :: acc)
      else if c =? 47 then
        if esc then shift_selector t esc (c :: acc) else (rev acc, t)
      else shift_selector t false (c :: acc)
    end.

  Fixpoint index_of (c : byte) (s : list byte) (acc : list byte) : option (list byte * list byte) :=
    match s with
    | [] => None
    | x :: t => if x =? c then Some (rev acc, t) else index_of c t (x :: acc)
    end.

  (* toQualifier *)
  Definition to_qualifier (s : list byte) : out filt :=
    let '(name, query) := match index_of 61 s [] with Some (n, q) => (n, q) | None => (s, []) end in
    if re_ok query then Ok (FQual name query) else Err EOther.

  Fixpoint selector_loop (fuel : nat) (tail : list byte) (flt : filt) : out filt :=
    match fuel with
    | O => OutOfFuel
    | S f =>
      match tail with
      | [] => Ok flt
      | _ =>
        let '(head, tail') := shift_selector tail false [] in
        q <- to_qualifier head ;;
        selector_loop f tail' (FAnd [flt; q])
      end
    end.

  Definition selector (sel : list byte) : out filt :=
    let '(head, tail) := shift_selector sel false [] in
    selector_loop (S (length tail)) tail (FKey head).

  (* FeatureSlice.Filter *)
  Definition feature_filter (p : filt) (ff : list feature) : list feature :=
    filter (feval p) ff.
End Select.

(* ---- a small regexp fragment for the correspondence: [^] literal-or-dot* [$];
   anything containing another metacharacter is "does not compile" when it is
   an unbalanced '(' or '[', and is outside the generated domain otherwise *)
Definition is_meta (c : byte) : bool :=
  existsb (Z.eqb c) [40; 41; 91; 93; 42; 43; 63; 124; 123; 125].

(* a backslash must escape a punctuation character *)
Fixpoint escapes_ok (pat : list byte) : bool :=
  match pat with
  | [] => true
  | 92 :: q :: t => (existsb (Z.eqb q) [47; 46; 92; 40; 41; 91; 93; 36; 94]) && escapes_ok t
  | [92] => false
  | _ :: t => escapes_ok t
  end.

Fixpoint unescaped_meta (pat : list byte) : bool :=
  match pat with
  | [] => false
  | 92 :: _ :: t => unescaped_meta t
  | c :: t => is_meta c || unescaped_meta t
  end.

Fixpoint match_here (pat s : list byte) : bool :=
  match pat with
  | [] => true
  | [36] => match s with [] => true | _ => false end          (* '$' at the end *)
  | 92 :: q :: pt =>                                           (* escaped literal *)
    match s with
    | [] => false
    | c :: st => (q =? c) && match_here pt st
    end
  | p :: pt =>
    match s with
    | [] => false
    | c :: st => ((p =? 46) && negb (c =? 10) || (p =? c)) && match_here pt st
    end
  end.

Fixpoint match_anywhere (pat s : list byte) : bool :=
  match_here pat s ||
  match s with
  | [] => false
  | _ :: t => match_anywhere pat t
  end.

Definition frag_ok (pat : list byte) : bool := escapes_ok pat && negb (unescaped_meta pat).
Definition frag_match (pat s : list byte) : bool :=
  match pat with
  | 94 :: p => match_here p s
  | _ => match_anywhere pat s
  end.
