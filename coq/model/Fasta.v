(* Fasta.v — model of /repo/seqio/fasta.go: Fasta.WriteTo (with go-wrap's
   wrap.Force), FastaParser on the pars model, and the record loop of
   seqio.Scanner for a FASTA stream. *)
From GTS Require Import Base Pars.
Open Scope Z_scope.

(* wrap.Force(s, n): for i+n < len(s) { write s[i:i+n]; '\n'; i += n }; write s[i:] *)
Fixpoint wrap_force (fuel : nat) (s : list byte) (n : nat) : list byte :=
  match fuel with
  | O => s
  | S f =>
    if Nat.ltb n (length s) then firstn n s ++ [10] ++ wrap_force f (skipn n s) n
    else s
  end.

(* strings.ReplaceAll(desc, "\n", " ") *)
Definition nl_to_space (d : list byte) : list byte := map (fun c => if c =? 10 then 32 else c) d.

(* Fasta.WriteTo: ">%s\n%s\n" *)
Definition fasta_format (desc data : list byte) : list byte :=
  [62] ++ nl_to_space desc ++ [10] ++ wrap_force (length data) data 70 ++ [10].

(* GenBankFields.String (seqio/genbank.go), the FASTA description of a GenBank
   record: "%s:%d-%d %s" (version, head+1, tail, definition) when the record
   is a slice (Region is a gts.Segment), "%s %s" otherwise *)
Definition gb_desc (version : list byte) (region : option (Z * Z)) (definition : list byte) : list byte :=
  match region with
  | Some (h, t) => version ++ [58] ++ itoa (h + 1) ++ [45] ++ itoa t ++ [32] ++ definition
  | None => version ++ [32] ++ definition
  end.

(* FastaWriter.WriteSeq on a sequence whose metadata is a fmt.Stringer:
   Fasta{info.String(), v.Bytes()}.WriteTo *)
Definition gb_to_fasta (version : list byte) (region : option (Z * Z)) (definition data : list byte) : list byte :=
  fasta_format (gb_desc version region definition) data.

(* bytes.Split(body, "\n") / TrimSuffix(line, "\r") / bytes.Join(lines, nil) *)
Fixpoint split_nl (l : list byte) (cur : list byte) : list (list byte) :=
  match l with
  | [] => [rev cur]
  | c :: t => if c =? 10 then rev cur :: split_nl t [] else split_nl t (c :: cur)
  end.
Definition trim_cr (l : list byte) : list byte :=
  match rev l with
  | 13 :: r => rev r
  | _ => l
  end.
Definition fasta_body_data (body : list byte) : list byte :=
  concat (map trim_cr (split_nl body [])).

(* FastaParser = Seq('>', Line, Until(Any('>', End))).Map(...) *)
Definition fasta_parser : M (list byte * list byte) :=
  pMap (pSeq3 (pByte 62) pLine (pUntilP (pAny [pByte 62 ;;; ret tt; pEnd])))
       (fun '(_, desc, body) => Ok (desc, fasta_body_data body)).

(* Scanner with a fixed parser: stops cleanly when only blanks remain; any
   parser error, the input running out inside a record included, is reported *)
Fixpoint scan_loop {A} (fuel : nat) (p : M A) (acc : list A) : M (list A * bool) :=
  match fuel with
  | O => nofuel
  | S f =>
    e <-- at_end ;;;
    if e then ret (rev acc, true) else
    r <-- try p ;;;
    match r with
    | (Some a, _) => scan_loop f p (a :: acc)
    | (None, _) => ret (rev acc, false)
    end
  end.

(* result: records, and whether the stream ended cleanly (Err() == nil) *)
Definition scan_fasta (input : list byte) : out (list (list byte * list byte) * bool) :=
  fst (scan_loop (S (length input)) fasta_parser [] (st_of input)).
