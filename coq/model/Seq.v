(* Seq.v — model of /repo/feature.go (FeatureSlice.Insert, Filter, the
   Within/Overlap/Key filters) and /repo/sequence.go (Insert, Embed, Delete,
   Erase, Slice, Concat, Reverse, Rotate) and Complement (nucleotide.go) and
   Region.Locate (region.go), on sequences = feature table + residues.
   Metadata (Info) is handled separately (GenBankFields.Slice in GbInfo.v). *)
From GTS Require Import Base Arith Tables Loc.
Open Scope Z_scope.

Definition props := list (list (list byte)).   (* gts.Props = [][]string *)

Record feature := mkfeat { fkey : list byte; floc : loc; fprops : props }.

Record seq := mkseq { feats : list feature; residues : list byte }.

Definition source_key : list byte := [115; 111; 117; 114; 99; 101].
Definition is_source (f : feature) : bool := bytes_eqb (fkey f) source_key.

(* sort.Search(n, f): the binary search of the Go standard library *)
Fixpoint search_loop (fuel : nat) (f : Z -> bool) (i j : Z) : Z :=
  match fuel with
  | O => i
  | S k =>
    if i <? j then
      let h := (i + j) / 2 in
      if negb (f h) then search_loop k f (h + 1) j else search_loop k f i h
    else i
  end.
Definition sort_search (n : Z) (f : Z -> bool) : Z :=
  search_loop (S (Z.to_nat n)) f 0 n.

Fixpoint count_sources (ff : list feature) : nat :=
  match ff with
  | f :: t => if is_source f then S (count_sources t) else O
  | [] => O
  end.

Definition nth_loc (ff : list feature) (k : Z) : loc :=
  match nth_error ff (Z.to_nat k) with Some f => floc f | None => Between 0 end.

(* FeatureSlice.Insert *)
Definition fs_insert (ff : list feature) (f : feature) : list feature :=
  let i := Z.of_nat (count_sources ff) in
  let i :=
    if is_source f then i
    else i + sort_search (zlen ff - i) (fun j => loc_less (floc f) (nth_loc ff (i + j))) in
  firstn (Z.to_nat i) ff ++ [f] ++ skipn (Z.to_nat i) ff.

Definition set_loc (f : feature) (l : loc) : feature := mkfeat (fkey f) l (fprops f).

(* `for _, f := range ff { f.Loc = op(f.Loc); gg = gg.Insert(f) }` *)
Fixpoint insert_all (op : loc -> out loc) (acc : list feature) (ff : list feature) : out (list feature) :=
  match ff with
  | [] => Ok acc
  | f :: t => l <- op (floc f) ;; insert_all op (fs_insert acc (set_loc f l)) t
  end.

Fixpoint map_locs (op : loc -> out loc) (ff : list feature) : out (list feature) :=
  match ff with
  | [] => Ok []
  | f :: t => l <- op (floc f) ;; r <- map_locs op t ;; Ok (set_loc f l :: r)
  end.

(* insert(p, pos, q) = append(p[:pos], append(q, p[pos:]...)...) *)
Definition insert_bytes (p : list byte) (pos : Z) (q : list byte) : out (list byte) :=
  a <- slice p 0 pos ;; b <- slice p pos (zlen p) ;; Ok (a ++ q ++ b).

Definition seq_insert (host : seq) (index : Z) (guest : seq) : out seq :=
  let n := zlen (residues guest) in
  ff <- insert_all (fun l => shift l index n) [] (feats host) ;;
  ff <- insert_all (fun l => expand l 0 index) ff (feats guest) ;;
  p <- insert_bytes (residues host) index (residues guest) ;;
  Ok (mkseq ff p).

Definition seq_embed (host : seq) (index : Z) (guest : seq) : out seq :=
  let n := zlen (residues guest) in
  ff <- insert_all (fun l => expand l index n) [] (feats host) ;;
  ff <- insert_all (fun l => expand l 0 index) ff (feats guest) ;;
  p <- insert_bytes (residues host) index (residues guest) ;;
  Ok (mkseq ff p).

Definition seq_delete (s : seq) (offset length : Z) : out seq :=
  ff <- map_locs (fun l => expand l offset (- length)) (feats s) ;;
  let q := residues s in
  if zlen q - length <? 0 then Panic else
  (* copy(p[:offset], q[:offset]); copy(p[offset:], q[offset+length:]) *)
  a <- slice q 0 offset ;;
  if zlen q - length <? offset then Panic else
  b <- slice q (offset + length) (zlen q) ;;
  let p := a ++ b in
  (* p has len(q)-length bytes; copy truncates, missing bytes stay zero *)
  let want := zlen q - length in
  Ok (mkseq ff (firstn (Z.to_nat want) p ++ repeat_byte 0 (want - zlen p))).

Definition seq_erase (s : seq) (offset length : Z) : out seq :=
  let keep f := is_source f || negb (loc_within (floc f) offset (offset + length)) in
  seq_delete (mkseq (filter keep (feats s)) (residues s)) offset length.

Definition seq_rotate (s : seq) (n : Z) : out seq :=
  let len := zlen (residues s) in
  if len =? 0 then Ok s (* if Len(seq) == 0 { return seq } *) else
  (* for Len > 0 && n < 0 { n += Len } ; n %= Len *)
  let n := if n <? 0 then (n mod len) else gmod n len in
  ff <- insert_all (fun l => l' <- expand l 0 n ;; normalize l' len) [] (feats s) ;;
  let m := len - n in
  a <- slice (residues s) m len ;; b <- slice (residues s) 0 m ;;
  Ok (mkseq ff (a ++ b)).

Fixpoint seq_slice_f (fuel : nat) (s : seq) (start end_ : Z) : out seq :=
  match fuel with
  | O => OutOfFuel
  | S f =>
    let seqlen := zlen (residues s) in
    let start := if start <? 0 then start + seqlen else start in
    let end_ := if end_ <? 0 then end_ + seqlen else end_ in
    if end_ <? start then
      let length := seqlen - start + end_ in
      r <- seq_rotate s (- start) ;;
      seq_slice_f f r 0 length
    else
      let kept := filter (fun g => loc_overlap (floc g) start end_) (feats s) in
      ff <- map_locs (fun l =>
              l1 <- expand l end_ (end_ - seqlen) ;;
              expand l1 0 (- start)) kept ;;
      let ff := map (fun g => if is_source g then set_loc g (as_complete (floc g)) else g) ff in
      if end_ - start <? 0 then Panic else
      p <- slice (residues s) start end_ ;;
      Ok (mkseq ff p)
  end.
Definition seq_slice (s : seq) (start end_ : Z) : out seq := seq_slice_f 3 s start end_.

Fixpoint concat_tail (ff : list feature) (p : list byte) (tail : list seq) : out seq :=
  match tail with
  | [] => Ok (mkseq ff p)
  | s :: t =>
    ff' <- insert_all (fun l => expand l 0 (zlen p)) ff (feats s) ;;
    concat_tail ff' (p ++ residues s) t
  end.
Definition seq_concat (ss : list seq) : out seq :=
  match ss with
  | [] => Ok (mkseq [] [])
  | [s] => Ok s
  | h :: t => concat_tail (feats h) (residues h) t
  end.

Definition seq_reverse (s : seq) : out seq :=
  let len := zlen (residues s) in
  ff <- insert_all (fun l => reverse l len) [] (feats s) ;;
  Ok (mkseq ff (rev (residues s))).

(* replaceBytes(p, old, new) *)
Fixpoint index_byte (l : list byte) (c : byte) (k : Z) : option Z :=
  match l with
  | [] => None
  | x :: t => if x =? c then Some k else index_byte t c (k + 1)
  end.
Definition replace_byte (old new : list byte) (c : byte) : out byte :=
  match index_byte old c 0 with
  | None => Ok c
  | Some j => index new j
  end.
Definition replace_bytes (p old new : list byte) : out (list byte) :=
  omapM (replace_byte old new) p.

Definition seq_complement (s : seq) : out seq :=
  p <- replace_bytes (residues s) complement_from complement_to ;;
  Ok (mkseq (map (fun f => set_loc f (complement (floc f))) (feats s)) p).

Definition seq_transcribe (s : seq) : out seq :=
  p <- replace_bytes (residues s) transcribe_from transcribe_to ;;
  Ok (mkseq (feats s) p).

(* Region.Locate *)
Fixpoint locate (r : region) (s : seq) : out seq :=
  match r with
  | Seg h t =>
    if t <? h then
      x <- seq_slice s t h ;; y <- seq_complement x ;; seq_reverse y
    else seq_slice s h t
  | Regs rs => parts <- omapM (fun r => locate r s) rs ;; seq_concat parts
  end.
