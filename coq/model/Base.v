(* Base.v — shared conventions of the gts model (DESIGN.md §3).
   Go int -> Z, bytes -> Z (code points), Go panics -> explicit outcomes. *)
From Coq Require Export List ZArith Bool Lia.
Export ListNotations.
Open Scope Z_scope.

Definition byte := Z.

(* Outcome of a modelled Go computation. *)
(* What a Go error unwraps to (seqio.dig): only these distinctions are ever
   observed by the code (Scanner.Err hides io.EOF; GenBankParser tests for
   errGenBankExtra). *)
Inductive ekind := EOther | EEof | EExtra.

Inductive out (A : Type) : Type :=
| Ok (a : A)
| Err (k : ekind) (* Go returned a non-nil error *)
| Panic          (* Go would panic (index out of range, explicit panic, ...) *)
| OutOfFuel.     (* model ran out of explicit fuel; excluded by theorems *)
Arguments Ok {A} a.
Arguments Err {A} k.
Arguments Panic {A}.
Arguments OutOfFuel {A}.

Definition obind {A B} (x : out A) (f : A -> out B) : out B :=
  match x with
  | Ok a => f a
  | Err k => Err k
  | Panic => Panic
  | OutOfFuel => OutOfFuel
  end.
Notation "x <- e ;; f" := (obind e (fun x => f))
  (at level 61, e at next level, right associativity).

Definition omap {A B} (f : A -> B) (x : out A) : out B :=
  match x with Ok a => Ok (f a) | Err k => Err k | Panic => Panic | OutOfFuel => OutOfFuel end.

Definition is_ok {A} (x : out A) : bool := match x with Ok _ => true | _ => false end.

(* Traverse a list with an effectful function (f outside the fix so that
   nested recursion through it passes the guard checker). *)
Section OMapM.
  Context {A B : Type} (f : A -> out B).
  Fixpoint omapM (l : list A) : out (list B) :=
    match l with
    | [] => Ok []
    | x :: xs => y <- f x ;; ys <- omapM xs ;; Ok (y :: ys)
    end.
End OMapM.

Definition zlen {A} (l : list A) : Z := Z.of_nat (length l).

(* Go slice expression p[a:b] with bounds check (cap = len in the model). *)
Definition slice {A} (p : list A) (a b : Z) : out (list A) :=
  if (0 <=? a) && (a <=? b) && (b <=? zlen p)
  then Ok (firstn (Z.to_nat (b - a)) (skipn (Z.to_nat a) p))
  else Panic.

(* Go index expression p[i]. *)
Definition index {A} (p : list A) (i : Z) : out A :=
  if (0 <=? i) && (i <? zlen p)
  then match nth_error p (Z.to_nat i) with Some x => Ok x | None => Panic end
  else Panic.

(* [zrange s e] = s, s+1, ..., e-1 (empty when e <= s). *)
Fixpoint zrange_n (s : Z) (n : nat) : list Z :=
  match n with O => [] | S k => s :: zrange_n (s + 1) k end.
Definition zrange (s e : Z) : list Z := zrange_n s (Z.to_nat (e - s)).

(* Decimal printing of a Z, as strconv.Itoa / fmt "%d". *)
Fixpoint digits_pos (fuel : nat) (n : Z) (acc : list byte) : list byte :=
  match fuel with
  | O => acc
  | S k =>
      let acc' := (48 + n mod 10) :: acc in
      if n <? 10 then acc' else digits_pos k (n / 10) acc'
  end.

(* number of decimal digits is <= Z.log2 n + 1 <= size; use log2-based fuel *)
Definition digits_nat (n : Z) : list byte :=
  digits_pos (S (Z.to_nat (Z.log2 n))) n [].

Definition itoa (n : Z) : list byte :=
  if n <? 0 then 45 :: digits_nat (- n) else digits_nat n.

Definition repeat_byte (c : byte) (n : Z) : list byte := repeat c (Z.to_nat n).

(* fmt "%<w>d": right-aligned in width w, never truncated *)
Definition pad_left (w : Z) (s : list byte) : list byte :=
  repeat_byte 32 (w - zlen s) ++ s.
(* fmt "%-<w>s" *)
Definition pad_right (w : Z) (s : list byte) : list byte :=
  s ++ repeat_byte 32 (w - zlen s).

Fixpoint list_eqb {A} (eqb : A -> A -> bool) (a b : list A) : bool :=
  match a, b with
  | [], [] => true
  | x :: xs, y :: ys => eqb x y && list_eqb eqb xs ys
  | _, _ => false
  end.
Definition bytes_eqb := list_eqb Z.eqb.

Fixpoint is_prefix (p s : list byte) : bool :=
  match p, s with
  | [], _ => true
  | x :: xs, y :: ys => (x =? y) && is_prefix xs ys
  | _ :: _, [] => false
  end.

(* Go truncating division / remainder *)
Definition gdiv (a b : Z) : Z := Z.quot a b.
Definition gmod (a b : Z) : Z := Z.rem a b.
