(* Loc.v — model of /repo/location.go: the INSDC location values and their
   operations, case by case as written.  Integer helpers (Min/Max/Compare,
   rangeWithin/Overlap/Compare) come from the REGENERATED gen/Arith.v. *)
From GTS Require Import Base Arith.
Open Scope Z_scope.

Inductive loc : Type :=
| Between (p : Z)
| Point (p : Z)
| Ranged (s e : Z) (p5 p3 : bool)
| Ambiguous (s e : Z)
| Joined (ls : list loc)
| Ordered (ls : list loc)
| Complemented (l : loc).

(* nested induction principle *)
Section LocInd.
  Variable P : loc -> Prop.
  Hypothesis HB : forall p, P (Between p).
  Hypothesis HP : forall p, P (Point p).
  Hypothesis HR : forall s e a b, P (Ranged s e a b).
  Hypothesis HA : forall s e, P (Ambiguous s e).
  Hypothesis HJ : forall ls, Forall P ls -> P (Joined ls).
  Hypothesis HO : forall ls, Forall P ls -> P (Ordered ls).
  Hypothesis HC : forall l, P l -> P (Complemented l).
  Fixpoint loc_ind' (l : loc) : P l :=
    match l with
    | Between p => HB p
    | Point p => HP p
    | Ranged s e a b => HR s e a b
    | Ambiguous s e => HA s e
    | Joined ls => HJ ls ((fix go (ls : list loc) : Forall P ls :=
                             match ls with
                             | [] => Forall_nil P
                             | x :: t => Forall_cons x (loc_ind' x) (go t)
                             end) ls)
    | Ordered ls => HO ls ((fix go (ls : list loc) : Forall P ls :=
                              match ls with
                              | [] => Forall_nil P
                              | x :: t => Forall_cons x (loc_ind' x) (go t)
                              end) ls)
    | Complemented l => HC l (loc_ind' l)
    end.
End LocInd.

Fixpoint loc_size (l : loc) : nat :=
  match l with
  | Joined ls | Ordered ls => S (fold_right (fun x acc => loc_size x + acc)%nat O ls)
  | Complemented l => S (loc_size l)
  | _ => 1%nat
  end.

Fixpoint loc_eqb (a b : loc) : bool :=
  match a, b with
  | Between p, Between q => p =? q
  | Point p, Point q => p =? q
  | Ranged s e a5 a3, Ranged s' e' b5 b3 => (s =? s') && (e =? e') && Bool.eqb a5 b5 && Bool.eqb a3 b3
  | Ambiguous s e, Ambiguous s' e' => (s =? s') && (e =? e')
  | Joined xs, Joined ys | Ordered xs, Ordered ys =>
    (fix go (xs ys : list loc) : bool :=
       match xs, ys with
       | [], [] => true
       | x :: xt, y :: yt => loc_eqb x y && go xt yt
       | _, _ => false
       end) xs ys
  | Complemented x, Complemented y => loc_eqb x y
  | _, _ => false
  end.

(* Go's % panics on a zero divisor *)
Definition gomod (a b : Z) : out Z := if b =? 0 then Panic else Ok (gmod a b).

(* PartialRange / Range: panics when end <= start *)
Definition partial_range (s e : Z) (p5 p3 : bool) : out loc :=
  if e <=? s then Panic else Ok (Ranged s e p5 p3).

(* ------------------------------------------------------------ LocationList *)

Fixpoint split_last {A} (l : list A) : option (list A * A) :=
  match l with
  | [] => None
  | [x] => Some ([], x)
  | x :: t => match split_last t with Some (i, z) => Some (x :: i, z) | None => None end
  end.

Inductive merged := Keep | Replace (l : loc) | Append.

(* the type switch of LocationList.Push for non-Complemented pairs *)
Definition merge_simple (v u : loc) (force : bool) : merged :=
  match v, u with
  | Between v, Between u => if v =? u then Keep else Append
  | Between v, Point u => if v =? u then Replace (Point u) else Append
  | Between v, Ranged us ue a b => if v =? us then Replace (Ranged us ue a b) else Append
  | Point v, Between u => if v + 1 =? u then Keep else Append
  | Point v, Point u => if v =? u then Keep else Append
  | Point v, Ranged us ue a b => if v =? us then Replace (Ranged us ue a b) else Append
  | Ranged vs ve a b, Between u => if ve =? u then Keep else Append
  | Ranged vs ve a b, Point u => if ve =? u then Keep else Append
  | Ranged vs ve a b, Ranged us ue c d =>
    if ((b && c) || force) && (ve =? us) then Replace (Ranged vs ue a d) else Append
  | _, _ => Append
  end.

Fixpoint ll_push (fuel : nat) (ll : list loc) (l : loc) (force : bool) : out (list loc) :=
  match fuel with
  | O => OutOfFuel
  | S f =>
    match l with
    | Joined js =>
      (fix go (ll : list loc) (js : list loc) : out (list loc) :=
         match js with
         | [] => Ok ll
         | j :: t => ll' <- ll_push f ll j force ;; go ll' t
         end) ll js
    | _ =>
      match split_last ll with
      | None => Ok [l]
      | Some (init, last) =>
        match last, l with
        | Complemented v, Complemented u =>
          tmp <- ll_push f [u] v force ;;
          pushed <- (fix go (acc : list loc) (xs : list loc) : out (list loc) :=
                       match xs with
                       | [] => Ok acc
                       | x :: t => acc' <- ll_push f acc x true ;; go acc' t
                       end) [] tmp ;;
          match pushed with
          | [] => Panic
          | [x] => Ok (init ++ [Complemented x])
          | xs => Ok (init ++ [Complemented (Joined xs)])
          end
        | _, _ =>
          match merge_simple last l force with
          | Keep => Ok ll
          | Replace d => Ok (init ++ [d])
          | Append => Ok (ll ++ [l])
          end
        end
      end
    end
  end.

Fixpoint ll_push_all (fuel : nat) (acc : list loc) (xs : list loc) (force : bool) : out (list loc) :=
  match xs with
  | [] => Ok acc
  | x :: t => acc' <- ll_push fuel acc x force ;; ll_push_all fuel acc' t force
  end.

Definition list_size (ls : list loc) : nat := fold_right (fun x acc => loc_size x + acc)%nat O ls.

(* gts.Join(locs...) *)
Definition join (locs : list loc) : out loc :=
  r <- ll_push_all (S (S (list_size locs))) [] locs true ;;
  match r with
  | [] => Panic
  | [x] => Ok x
  | xs => Ok (Joined xs)
  end.

(* flattenLocations / gts.Order *)
Fixpoint flatten_locs (fuel : nat) (locs : list loc) : list loc :=
  match fuel with
  | O => locs
  | S f =>
    flat_map (fun l => match l with Ordered xs => flatten_locs f xs | _ => [l] end) locs
  end.

Definition order (locs : list loc) : out loc :=
  match flatten_locs (S (list_size locs)) locs with
  | [] => Panic
  | [x] => Ok x
  | xs => Ok (Ordered xs)
  end.

(* ------------------------------------------------------------ per-kind ops *)

Definition between_expand (p i n : Z) : loc :=
  Between (if i <? p then go_Max i (p + n) else p).

Definition point_expand (p i n : Z) : loc :=
  if (n <? 0) && (i <=? p) && (p <? i - n) then Between i
  else if ((0 <=? n) && (i <=? p)) || ((n <? 0) && (i <? p)) then Point (go_Max i (p + n))
  else Point p.

Definition ranged_expand (s e : Z) (p5 p3 : bool) (i n : Z) : loc :=
  if n =? 0 then Ranged s e p5 p3 else
  let j := i - n in
  let p5' := if (n <? 0) && (i <=? s) && (s <? j) then true else p5 in
  let p3' := if (n <? 0) && (i <? e) && (e <=? j) then true else p3 in
  let s' := if ((0 <=? n) && (i <=? s)) || ((n <? 0) && (i <? s)) then go_Max i (s + n) else s in
  let e' := if ((0 <=? n) && (i <? e)) || ((n <? 0) && (i <=? e)) then go_Max i (e + n) else e in
  if s' =? e' then Between s' else Ranged s' e' p5' p3'.

Definition ambiguous_expand (s e i n : Z) : loc :=
  if n =? 0 then Ambiguous s e else
  let s' := if ((0 <=? n) && (i <=? s)) || ((n <? 0) && (i <? s)) then go_Max i (s + n) else s in
  let e' := if ((0 <=? n) && (i <? e)) || ((n <? 0) && (i <=? e)) then go_Max i (e + n) else e in
  if s' =? e' then Between s' else Ambiguous s' e'.

Fixpoint expand (l : loc) (i n : Z) : out loc :=
  match l with
  | Between p => Ok (between_expand p i n)
  | Point p => Ok (point_expand p i n)
  | Ranged s e p5 p3 => Ok (ranged_expand s e p5 p3 i n)
  | Ambiguous s e => Ok (ambiguous_expand s e i n)
  | Joined ls => ls' <- omapM (fun x => expand x i n) ls ;; join ls'
  | Ordered ls => ls' <- omapM (fun x => expand x i n) ls ;; order ls'
  | Complemented x => x' <- expand x i n ;; Ok (Complemented x')
  end.

Definition ranged_shift (s e : Z) (p5 p3 : bool) (i n : Z) : out loc :=
  if n =? 0 then Ok (Ranged s e p5 p3)
  else if n <? 0 then Ok (ranged_expand s e p5 p3 i n)
  else if (s <? i) && (i <? e) then
    left <- partial_range s i p5 false ;;
    right <- partial_range (i + n) (e + n) false p3 ;;
    join [left; right]
  else
    Ok (Ranged (if i <=? s then s + n else s) (if i <? e then e + n else e) p5 p3).

Definition ambiguous_shift (s e i n : Z) : out loc :=
  if n =? 0 then Ok (Ambiguous s e)
  else if n <? 0 then Ok (ambiguous_expand s e i n)
  else if (s <? i) && (i <? e) then order [Ambiguous s i; Ambiguous (i + n) (e + n)]
  else Ok (Ambiguous (if i <=? s then s + n else s) (if i <? e then e + n else e)).

Fixpoint shift (l : loc) (i n : Z) : out loc :=
  match l with
  | Between p => Ok (between_expand p i n)
  | Point p => Ok (point_expand p i n)
  | Ranged s e p5 p3 => ranged_shift s e p5 p3 i n
  | Ambiguous s e => ambiguous_shift s e i n
  | Joined ls => ls' <- omapM (fun x => shift x i n) ls ;; join ls'
  | Ordered ls => ls' <- omapM (fun x => shift x i n) ls ;; order ls'
  | Complemented x => x' <- shift x i n ;; Ok (Complemented x')
  end.

Definition ranged_reverse (s e : Z) (p5 p3 : bool) (len : Z) : out loc :=
  r <- partial_range (len - e) (len - s) p5 p3 ;;
  match p5, p3 with
  | true, false => Ok (Ranged (len - e) (len - s) false true)
  | false, true => Ok (Ranged (len - e) (len - s) true false)
  | _, _ => Ok r
  end.

Fixpoint reverse (l : loc) (len : Z) : out loc :=
  match l with
  | Between p => Ok (Between (len - 1 - p))
  | Point p => Ok (Point (len - 1 - p))
  | Ranged s e p5 p3 => ranged_reverse s e p5 p3 len
  | Ambiguous s e => Ok (Ambiguous (len - e) (len - s))
  | Joined ls => ls' <- omapM (fun x => reverse x len) ls ;; join (rev ls')
  | Ordered ls => ls' <- omapM (fun x => reverse x len) ls ;; order (rev ls')
  | Complemented x => x' <- reverse x len ;; Ok (Complemented x')
  end.

Definition ranged_normalize (s e : Z) (p5 p3 : bool) (len : Z) : out loc :=
  if e - s =? len then Ok (ranged_expand s e p5 p3 0 (- s))
  else
    start <- gomod s len ;;
    e1 <- gomod (e - 1) len ;;
    let end_ := e1 + 1 in
    if start <? end_ then partial_range start end_ p5 p3
    else
      left <- partial_range start len p5 false ;;
      right <- partial_range 0 end_ false p3 ;;
      join [left; right].

Fixpoint normalize (l : loc) (len : Z) : out loc :=
  match l with
  | Between p => p' <- gomod p len ;; Ok (Between p')
  | Point p => p' <- gomod p len ;; Ok (Point p')
  | Ranged s e p5 p3 => ranged_normalize s e p5 p3 len
  | Ambiguous s e => s' <- gomod s len ;; e1 <- gomod (e - 1) len ;; Ok (Ambiguous s' (e1 + 1))
  | Joined ls => ls' <- omapM (fun x => normalize x len) ls ;; join ls'
  | Ordered ls => ls' <- omapM (fun x => normalize x len) ls ;; order ls'
  | Complemented x => x' <- normalize x len ;; Ok (Complemented x')
  end.

(* Location.Complement(): Complemented unwraps, everything else is wrapped *)
Definition complement (l : loc) : loc :=
  match l with Complemented x => x | _ => Complemented l end.

Fixpoint loc_len (l : loc) : Z :=
  match l with
  | Between _ => 0
  | Point _ => 1
  | Ranged s e _ _ => e - s
  | Ambiguous _ _ => 1
  | Joined ls | Ordered ls => fold_right (fun x acc => loc_len x + acc) 0 ls
  | Complemented x => loc_len x
  end.

(* asComplete (sequence.go Slice, for source features) *)
Fixpoint as_complete (l : loc) : loc :=
  match l with
  | Ranged s e _ _ => Ranged s e false false
  | Joined ls => Joined (map as_complete ls)
  | Ordered ls => Ordered (map as_complete ls)
  | _ => l
  end.

(* span() of contiguous locations *)
Definition span (l : loc) : option (Z * Z) :=
  match l with
  | Between p => Some (p, p)
  | Point p => Some (p, p + 1)
  | Ranged s e _ _ => Some (s, e)
  | Ambiguous s e => Some (s, e)
  | _ => None
  end.

Fixpoint loc_within (l : loc) (lower upper : Z) : bool :=
  match l with
  | Complemented x => loc_within x lower upper
  | Joined ls | Ordered ls => forallb (fun x => loc_within x lower upper) ls
  | Between p => go_rangeWithin p p lower upper
  | Point p => go_rangeWithin p (p + 1) lower upper
  | Ranged s e _ _ | Ambiguous s e => go_rangeWithin s e lower upper
  end.

Fixpoint loc_overlap (l : loc) (lower upper : Z) : bool :=
  match l with
  | Complemented x => loc_overlap x lower upper
  | Joined ls | Ordered ls => existsb (fun x => loc_overlap x lower upper) ls
  | Between p => go_rangeOverlap p p lower upper
  | Point p => go_rangeOverlap p (p + 1) lower upper
  | Ranged s e _ _ | Ambiguous s e => go_rangeOverlap s e lower upper
  end.

(* LocationLess: recursion on both arguments, fuelled by their total size *)
Definition partial_count (l : loc) : Z :=
  match l with
  | Ranged _ _ p5 p3 => (if p5 then 1 else 0) + (if p3 then 1 else 0)
  | _ => 0
  end.

Fixpoint loc_less_f (fuel : nat) (a b : loc) : bool :=
  match fuel with
  | O => false
  | S f =>
    match a with
    | Complemented x => loc_less_f f x b
    | _ =>
      match b with
      | Complemented y => loc_less_f f a y
      | _ =>
        match a with
        | Joined ls | Ordered ls => existsb (fun l => loc_less_f f l b) ls
        | _ =>
          match b with
          | Joined ls | Ordered ls => forallb (fun l => loc_less_f f a l) ls
          | _ =>
            match span a, span b with
            | Some (s1, e1), Some (s2, e2) =>
              let c := go_rangeCompare s1 e1 s2 e2 in
              if negb (c =? 0) then c <? 0
              else partial_count a <? partial_count b
            | Some _, None => true
            | _, _ => false
            end
          end
        end
      end
    end
  end.
Definition loc_less (a b : loc) : bool := loc_less_f (S (loc_size a + loc_size b)) a b.

(* CheckStrand: 1 = forward, 2 = reverse, 0 = both *)
Fixpoint check_strand (l : loc) : Z :=
  match l with
  | Joined ls | Ordered ls =>
    let ss := map check_strand ls in
    let f := existsb (fun s => negb (s =? 2)) ss in
    let r := existsb (fun s => negb (s =? 1)) ss in
    if negb r then 1 else if negb f then 2 else 0
  | Complemented _ => 2
  | _ => 1
  end.

(* String() *)
Definition sep_by (sep : list byte) (xs : list (list byte)) : list byte :=
  match xs with
  | [] => []
  | x :: t => x ++ flat_map (fun y => sep ++ y) t
  end.

Fixpoint show (l : loc) : list byte :=
  match l with
  | Between p => itoa p ++ [94] ++ itoa (p + 1)
  | Point p => itoa (p + 1)
  | Ranged s e p5 p3 =>
    (if p5 then [60] else []) ++ itoa (s + 1) ++ [46; 46] ++ (if p3 then [62] else []) ++ itoa e
  | Ambiguous s e => itoa (s + 1) ++ [46] ++ itoa e
  | Joined ls => [106; 111; 105; 110; 40] ++ sep_by [44] (map show ls) ++ [41]
  | Ordered ls => [111; 114; 100; 101; 114; 40] ++ sep_by [44] (map show ls) ++ [41]
  | Complemented x =>
    [99; 111; 109; 112; 108; 101; 109; 101; 110; 116; 40] ++ show x ++ [41]
  end.

(* ------------------------------------------------------------ regions *)

Inductive region : Type :=
| Seg (h t : Z)
| Regs (rs : list region).

Section RegionInd.
  Variable P : region -> Prop.
  Hypothesis HS : forall h t, P (Seg h t).
  Hypothesis HR : forall rs, Forall P rs -> P (Regs rs).
  Fixpoint region_ind' (r : region) : P r :=
    match r with
    | Seg h t => HS h t
    | Regs rs => HR rs ((fix go (rs : list region) : Forall P rs :=
                           match rs with
                           | [] => Forall_nil P
                           | x :: t => Forall_cons x (region_ind' x) (go t)
                           end) rs)
    end.
End RegionInd.

Fixpoint region_complement (r : region) : region :=
  match r with
  | Seg h t => Seg t h
  | Regs rs => Regs (rev (map region_complement rs))
  end.

Fixpoint loc_region (l : loc) : region :=
  match l with
  | Between p => Seg p p
  | Point p => Seg p (p + 1)
  | Ranged s e _ _ | Ambiguous s e => Seg s e
  | Joined ls | Ordered ls => Regs (map loc_region ls)
  | Complemented x => region_complement (loc_region x)
  end.

(* ------------------------------------------------------------ denotation *)

(* ordered, stranded residue positions; strand true = complement strand *)
Fixpoint den (l : loc) : list (Z * bool) :=
  match l with
  | Between _ => []
  | Point p => [(p, false)]
  | Ranged s e _ _ | Ambiguous s e => map (fun x => (x, false)) (zrange s e)
  | Joined ls | Ordered ls => flat_map den ls
  | Complemented x => rev (map (fun '(p, c) => (p, negb c)) (den x))
  end.

(* what a region denotes: Segment.Locate slices [h,t) forward, or the
   reverse complement of [t,h) when t < h; Regions concatenate *)
Fixpoint region_den (r : region) : list (Z * bool) :=
  match r with
  | Seg h t => if t <? h then rev (map (fun x => (x, true)) (zrange t h))
               else map (fun x => (x, false)) (zrange h t)
  | Regs rs => flat_map region_den rs
  end.

(* 5'/3' partial markers on the outer ends in reading direction *)
Fixpoint first_part (l : loc) : option loc :=
  match l with
  | Joined ls | Ordered ls => match ls with x :: _ => first_part x | [] => None end
  | Complemented x => last_part x
  | _ => Some l
  end
with last_part (l : loc) : option loc :=
  match l with
  | Joined ls | Ordered ls =>
    (fix go (ls : list loc) : option loc :=
       match ls with
       | [] => None
       | [x] => last_part x
       | _ :: t => go t
       end) ls
  | Complemented x => first_part x
  | _ => Some l
  end.
