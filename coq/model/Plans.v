(* Plans.v — model of the scan loops of the multi-site edit commands
   (cmd/gts/delete.go, insert.go, infix.go, split.go, rotate.go, extract.go) as
   functions of the located regions, on the sequence model of Seq.v. *)
From GTS Require Import Base Arith Loc Seq Region.
Open Scope Z_scope.

(* delete: ss := Minimize(located); flip; delete each (right to left) *)
Fixpoint fold_delete (erase : bool) (s : seq) (ss : list (Z * Z)) : out seq :=
  match ss with
  | [] => Ok s
  | (h, t) :: rest =>
    (* Segment.Head() = h, Len() = Abs(t-h) *)
    s' <- (if erase then seq_erase s h (go_Abs (t - h)) else seq_delete s h (go_Abs (t - h))) ;;
    fold_delete erase s' rest
  end.
Definition plan_delete (s : seq) (rr : list region) (erase : bool) : out seq :=
  fold_delete erase s (rev (minimize (Regs rr))).

(* insert / infix: heads of all regions, descending, one guest copy at each *)
Fixpoint z_insert_desc (x : Z) (l : list Z) : list Z :=
  match l with
  | [] => [x]
  | y :: t => if y <=? x then x :: l else y :: z_insert_desc x t
  end.
Definition sort_desc (l : list Z) : list Z := fold_right z_insert_desc [] l.

Fixpoint fold_insert (embed : bool) (host : seq) (indices : list Z) (guest : seq) : out seq :=
  match indices with
  | [] => Ok host
  | i :: rest =>
    h' <- (if embed then seq_embed host i guest else seq_insert host i guest) ;;
    fold_insert embed h' rest guest
  end.
Definition plan_insert (host : seq) (rr : list region) (guest : seq) (embed : bool) : out seq :=
  fold_insert embed host (sort_desc (map region_head rr)) guest.

(* rotate: bring the head of the first region to index 0 *)
Definition plan_rotate (s : seq) (rr : list region) : out seq :=
  match rr with
  | [] => Ok s
  | r :: _ => seq_rotate s (- region_head r)
  end.

(* split *)
Fixpoint z_insert_asc (x : Z) (l : list Z) : list Z :=
  match l with
  | [] => [x]
  | y :: t => if x <? y then x :: l else if x =? y then l else y :: z_insert_asc x t
  end.
Definition unique_sorted (l : list Z) : list Z := fold_right z_insert_asc [] l.

Fixpoint slice_pairs (s : seq) (splits : list Z) : out (list seq) :=
  match splits with
  | a :: ((b :: _) as t) => x <- seq_slice s a b ;; xs <- slice_pairs s t ;; Ok (x :: xs)
  | _ => Ok []
  end.

Definition plan_split (s : seq) (rr : list region) (circular : bool) : out (list seq) :=
  match rr with
  | [] => Ok [s]
  | [r] =>
    if circular then x <- seq_rotate s (- region_head r) ;; Ok [x]
    else
      let heads := unique_sorted [Z.min (region_head r) (region_tail r)] in
      slice_pairs s ([0] ++ heads ++ [zlen (residues s)])
  | _ =>
    let heads := unique_sorted (map (fun r => Z.min (region_head r) (region_tail r)) rr) in
    if circular then
      match heads with
      | [h] => x <- seq_rotate s (- h) ;; Ok [x]   (* one distinct cut: re-origin there *)
      | _ => slice_pairs s ([last heads 0] ++ heads)
      end
    else slice_pairs s ([0] ++ heads ++ [zlen (residues s)])
  end.

(* extract *)
Fixpoint region_eqb (a b : region) : bool :=
  match a, b with
  | Seg h t, Seg h' t' => (h =? h') && (t =? t')
  | Regs xs, Regs ys =>
    (fix go (xs ys : list region) : bool :=
       match xs, ys with
       | [], [] => true
       | x :: xt, y :: yt => region_eqb x y && go xt yt
       | _, _ => false
       end) xs ys
  | _, _ => false
  end.

Fixpoint dedup_regions (rr : list region) (acc : list region) : list region :=
  match rr with
  | [] => rev acc
  | r :: t => if existsb (region_eqb r) acc then dedup_regions t acc else dedup_regions t (r :: acc)
  end.

Definition plan_extract (s : seq) (located : list region) (invert : bool) : out (list seq) :=
  let rr := dedup_regions located [] in
  let rr := if invert then invert_linear (Regs rr) (zlen (residues s)) else rr in
  let single := match rr with [_] => true | _ => false end in
  omapM (fun r => locate r s)
        (filter (fun r => single || negb (region_len r =? zlen (residues s))) rr).
