(* Cache.v — model of /repo/cmd/cache (file.go, header.go): the on-disk format
   of a cache entry, Open's validation and the writer's protocol.  The hash and
   the compressor are Section variables (crypto/sha1, compress/flate are not
   modelled): the theorems quantify over every H of fixed output size and every
   deflate/inflate pair with inflate (deflate x) = Some x.  Collision resistance
   is never assumed. *)
From GTS Require Import Base.
Open Scope Z_scope.

Section Cache.
  Variable hsz : nat.                          (* h.Size() *)
  Variable H : list byte -> list byte.         (* h.Reset(); h.Write(x); h.Sum(nil) *)
  Variable deflate : list byte -> list byte.
  Variable inflate : list byte -> option (list byte).

  (* file name: hex of the leaf sum H(rsum ++ dsum) *)
  Definition leaf (rsum dsum : list byte) : list byte := H (rsum ++ dsum).

  (* ReadHeader + Validate + body hash of Open *)
  Definition open_body (rsum dsum f : list byte) : option (list byte) :=
    if Nat.ltb (length f) (3 * hsz) then None (* short or empty file *)
    else
      let hr := firstn hsz f in
      let hd := firstn hsz (skipn hsz f) in
      let hb := firstn hsz (skipn (2 * hsz) f) in
      let body := skipn (3 * hsz) f in
      if bytes_eqb rsum hr && bytes_eqb dsum hd && bytes_eqb (H body) hb
      then Some body else None.

  (* what a successful Open lets the caller read *)
  Definition open_entry (rsum dsum f : list byte) : option (list byte) :=
    match open_body rsum dsum f with
    | Some body => inflate body
    | None => None
    end.

  (* the finished file after Create; Write data; Close *)
  Definition final_file (rsum dsum data : list byte) : list byte :=
    let body := deflate data in
    rsum ++ dsum ++ H body ++ body.

  (* disk contents the writer can leave behind when interrupted:
     k header bytes already overwritten (0 <= k <= 3*hsz), body' on disk.
     Protocol order: the header is rewritten only after the whole body. *)
  Definition crash_state (rsum dsum data : list byte) (k : nat) (body' : list byte) : list byte :=
    let hdr := rsum ++ dsum ++ H (deflate data) in
    firstn k hdr ++ repeat 0 (3 * hsz - k) ++ body'.
End Cache.

(* ---- table-driven instance for the correspondence: the harness supplies
   sha1 of the byte strings that occur and the inflate results *)
Fixpoint assoc_bytes (tab : list (list byte * list byte)) (k : list byte) : option (list byte) :=
  match tab with
  | [] => None
  | (a, b) :: t => if bytes_eqb a k then Some b else assoc_bytes t k
  end.

Definition open_entry_tab (hsz : Z) (htab itab : list (list byte * list byte))
           (rsum dsum f : list byte) : option (list byte) :=
  open_entry (Z.to_nat hsz)
    (fun x => match assoc_bytes htab x with Some h => h | None => repeat 255 (Z.to_nat hsz) end)
    (fun x => assoc_bytes itab x) rsum dsum f.
