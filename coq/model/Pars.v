(* Pars.v — faithful model of github.com/go-pars/pars v1.1.6 State and the
   combinators gts uses (DESIGN.md §3.4).  The push/pop stack is modelled
   literally, leaks included; Clear trims the buffer and resets the stack.  *)
From GTS Require Import Base.
Open Scope Z_scope.

(* rest  : bytes from the current offset to the end of the input
   off   : s.off (offset inside s.buf; reset to 0 by Clear)
   endr  : s.end (absolute inside s.buf; None = -1 = no pending Request)
   apos  : absolute offset from the start of the input (stands for s.pos:
           Position{Line,Byte} is an injective function of it)
   stk   : saved (rest, off, apos) frames, most recent first *)
Record st := mkst {
  rest : list byte; off : Z; endr : option Z; apos : Z;
  stk : list (list byte * Z * Z) }.

Definition st_of (l : list byte) : st := mkst l 0 None 0 [].

Definition M (A : Type) := st -> out A * st.

Definition ret {A} (a : A) : M A := fun s => (Ok a, s).
Definition fail {A} (k : ekind) : M A := fun s => (Err k, s).
Definition mpanic {A} : M A := fun s => (Panic, s).
Definition nofuel {A} : M A := fun s => (OutOfFuel, s).
Definition bind {A B} (m : M A) (f : A -> M B) : M B := fun s =>
  match m s with
  | (Ok a, s') => f a s'
  | (Err k, s') => (Err k, s')
  | (Panic, s') => (Panic, s')
  | (OutOfFuel, s') => (OutOfFuel, s')
  end.
Notation "x <-- e ;;; f" := (bind e (fun x => f))
  (at level 61, e at next level, right associativity).
Notation "e ;;; f" := (bind e (fun _ => f))
  (at level 61, right associativity).

(* Run m and hand its error (if any) to the caller as a value, like
   `if err := p(state, result); err != nil`.  Panic/OutOfFuel propagate. *)
Definition try {A} (m : M A) : M (option A * ekind) := fun s =>
  match m s with
  | (Ok a, s') => (Ok (Some a, EOther), s')
  | (Err k, s') => (Ok (None, k), s')
  | (Panic, s') => (Panic, s')
  | (OutOfFuel, s') => (OutOfFuel, s')
  end.

Definition get : M st := fun s => (Ok s, s).
Definition put (s : st) : M unit := fun _ => (Ok tt, s).
Definition lift {A} (x : out A) : M A := fun s => (x, s).

Fixpoint has_n {A} (l : list A) (n : nat) {struct n} : bool :=
  match n, l with
  | O, _ => true
  | S _, [] => false
  | S k, _ :: t => has_n t k
  end.

Definition autoclear (s : st) : st :=
  match stk s with
  | [] => mkst (rest s) 0 (endr s) (apos s) []
  | _ => s
  end.

(* State.Request *)
Definition request (n : Z) : M unit := fun s =>
  if has_n (rest s) (Z.to_nat n)
  then (Ok tt, mkst (rest s) (off s) (Some (off s + n)) (apos s) (stk s))
  else (Err EEof, mkst (rest s) (off s) (Some (off s + zlen (rest s))) (apos s) (stk s)).

(* the same function computed without building the unary number n, for
   requests whose size comes from the input (ParsLemmas.request_z_eq) *)
Definition request_z (n : Z) : M unit := fun s =>
  if zlen (rest s) <? n
  then (Err EEof, mkst (rest s) (off s) (Some (off s + zlen (rest s))) (apos s) (stk s))
  else request n s.

(* State.Advance *)
Definition advance : M unit := fun s =>
  match endr s with
  | None => (Panic, s) (* "no previous call to Request" *)
  | Some e =>
    let k := e - off s in
    if (k <? 0) || negb (has_n (rest s) (Z.to_nat k)) then (Panic, s) else
    (Ok tt, autoclear (mkst (skipn (Z.to_nat k) (rest s)) e None (apos s + k) (stk s)))
  end.

(* State.Buffer *)
Definition buffer : M (list byte) := fun s =>
  match endr s with
  | None => (Panic, s) (* s.buf[s.off:-1] *)
  | Some e =>
    let k := e - off s in
    if (k <? 0) then (Panic, s) else (Ok (firstn (Z.to_nat k) (rest s)), s)
  end.

Definition push : M unit := fun s =>
  (Ok tt, mkst (rest s) (off s) (endr s) (apos s) ((rest s, off s, apos s) :: stk s)).
Definition pushed : M bool := fun s =>
  (Ok (match stk s with [] => false | _ => true end), s).
Definition pop : M unit := fun s =>
  match stk s with
  | [] => (Ok tt, s)
  | (r, o, a) :: t => (Ok tt, autoclear (mkst r o (endr s) a t))
  end.
Definition drop : M unit := fun s =>
  match stk s with
  | [] => (Ok tt, s)
  | _ :: t => (Ok tt, autoclear (mkst (rest s) (off s) (endr s) (apos s) t))
  end.
Definition clear : M unit := fun s =>
  (Ok tt, mkst (rest s) 0 (endr s) (apos s) []).
Definition position : M Z := fun s => (Ok (apos s), s).

(* pars.Next *)
Definition next : M byte :=
  request 1 ;;;
  b <-- buffer ;;;
  match b with c :: _ => ret c | [] => mpanic end.

(* pars.Skip *)
Definition skip (n : Z) : M unit := request n ;;; advance.

(* pars.Trail; callers in pars ignore the error, so "not pushed" yields [] *)
Definition trail : M (list byte) := fun s =>
  match stk s with
  | [] => (Ok [], s)
  | _ =>
    (o0 <-- (fun s => (Ok (off s), s)) ;;;
     pop ;;;
     o1 <-- (fun s => (Ok (off s), s)) ;;;
     r <-- try (request (o0 - o1)) ;;;
     p <-- buffer ;;;
     advance ;;;
     ret p) s
  end.

(* `for err == nil && f(c) { state.Advance(); c, err = Next(state) }`
   entered after a Next: returns the number of bytes consumed *)
Fixpoint span_n (f : byte -> bool) (l : list byte) : nat * list byte :=
  match l with
  | c :: t => if f c then let (k, r) := span_n f t in (S k, r) else (O, l)
  | [] => (O, [])
  end.

Definition advance_while (f : byte -> bool) : M unit := fun s =>
  let (k, r) := span_n f (rest s) in
  match k with
  | O => (Ok tt, s)
  | S _ =>
    let o := match stk s with [] => 0 | _ => off s + Z.of_nat k end in
    let e := match r with [] => o | _ => o + 1 end in
    (Ok tt, mkst r o (Some e) (apos s + Z.of_nat k) (stk s))
  end.

(* ascii filters *)
Definition is_digit (c : byte) : bool := (48 <=? c) && (c <=? 57).
Definition is_upper (c : byte) : bool := (65 <=? c) && (c <=? 90).
Definition is_lower (c : byte) : bool := (97 <=? c) && (c <=? 122).
Definition is_letter (c : byte) : bool := is_upper c || is_lower c.
Definition is_space (c : byte) : bool :=
  (c =? 32) || (c =? 9) || (c =? 10) || (c =? 11) || (c =? 12) || (c =? 13).
Definition is_snake (c : byte) : bool := is_letter c || is_digit c || (c =? 95).

(* strconv.Atoi on sign? digits (the only shapes pars.Int hands it) *)
Definition int64_max : Z := 9223372036854775807.
Fixpoint digits_val (l : list byte) (acc : Z) : Z :=
  match l with
  | c :: t => digits_val t (acc * 10 + (c - 48))
  | [] => acc
  end.
Definition atoi (l : list byte) : out Z :=
  match l with
  | [] => Err EOther
  | c :: t =>
    let '(neg, ds) := if c =? 45 then (true, t) else if c =? 43 then (false, t) else (false, l) in
    match ds with
    | [] => Err EOther
    | _ =>
      if negb (forallb is_digit ds) then Err EOther else
      let v := digits_val ds 0 in
      if neg then (if v <=? int64_max + 1 then Ok (- v) else Err EOther)
      else (if v <=? int64_max then Ok v else Err EOther)
    end
  end.

(* pars.Int — note the missing Pop on the two early Next failures *)
Definition pInt : M Z :=
  push ;;;
  c <-- next ;;;
  c <-- (if (c =? 45) || (c =? 43) then advance ;;; next else ret c) ;;;
  if negb (is_digit c) then pop ;;; fail EOther else
  if c =? 48 then advance ;;; drop ;;; ret 0 else
  advance_while is_digit ;;;
  p <-- trail ;;;
  lift (atoi p).

(* calculateLineLength *)
Fixpoint calc_line (l : list byte) (i n : Z) (cr : bool) : Z * Z :=
  match l with
  | [] => (i, n)
  | c :: t =>
    if (c =? 10) && cr then (i - 1, n + 1)
    else if c =? 10 then (i, n + 1)
    else if c =? 13 then calc_line t (i + 1) (n + 1) true
    else if cr then (i - 1, n)
    else calc_line t (i + 1) n cr
  end.

(* pars.Line (never fails) *)
Definition pLine : M (list byte) :=
  s <-- get ;;;
  let '(i, n) := calc_line (rest s) 0 0 false in
  _ <-- try (request i) ;;;
  tok <-- buffer ;;;
  advance ;;;
  _ <-- try (skip n) ;;;
  ret tok.

(* pars.EOL: Ok token; at end of input succeeds with empty token *)
Definition pEOL : M (list byte) :=
  r <-- try next ;;;
  match r with
  | (None, _) => ret []
  | (Some c, _) =>
    if c =? 10 then advance ;;; ret [10]
    else if c =? 13 then
      advance ;;;
      r2 <-- try next ;;;
      match r2 with
      | (Some 10, _) => advance ;;; ret [13; 10]
      | _ => ret [13]
      end
    else fail EOther
  end.

(* pars.End *)
Definition pEnd : M unit :=
  r <-- try (request 1) ;;;
  match r with (Some _, _) => fail EOther | (None, _) => ret tt end.

(* pars.Head *)
Definition pHead : M unit :=
  a <-- position ;;; if a =? 0 then ret tt else fail EOther.

(* pars.Spaces (never fails) *)
Definition pSpaces : M (list byte) :=
  push ;;; _ <-- try next ;;; advance_while is_space ;;; trail.

(* Scanner.atEnd: nothing but blanks and line ends remain; the position is
   restored *)
Definition at_end : M bool :=
  push ;;;
  _ <-- pSpaces ;;;
  r <-- try pEnd ;;;
  pop ;;;
  ret (match r with (Some _, _) => true | (None, _) => false end).

(* pars.Word(filter) *)
Definition pWord (f : byte -> bool) : M (list byte) :=
  push ;;; _ <-- try next ;;; advance_while f ;;;
  p <-- trail ;;;
  match p with [] => fail EOther | _ => ret p end.

(* pars.Filter(filter) *)
Definition pFilter (f : byte -> bool) : M byte :=
  c <-- next ;;; if f c then advance ;;; ret c else fail EOther.

(* pars.Byte(e) *)
Definition pByte (e : byte) : M byte :=
  c <-- next ;;; if c =? e then advance ;;; ret c else fail EOther.

(* pars.Bytes(p) / pars.String(s) *)
Definition pBytes (p : list byte) : M unit :=
  request (zlen p) ;;;
  b <-- buffer ;;;
  if bytes_eqb b p then advance else fail EOther.

(* Parser.Map(f) with a total f *)
Definition pMap {A B} (p : M A) (f : A -> out B) : M B :=
  push ;;;
  r <-- try p ;;;
  match r with
  | (None, k) => pop ;;; fail k
  | (Some a, _) => drop ;;; lift (f a)
  end.

(* pars.Dry *)
Definition pDry {A} (p : M A) : M A :=
  push ;;;
  r <-- try p ;;;
  pop ;;;
  match r with (None, k) => fail k | (Some a, _) => ret a end.

(* pars.Seq of two / three parsers (tuples instead of Children) *)
Definition pSeq2 {A B} (p : M A) (q : M B) : M (A * B) :=
  push ;;;
  r <-- try p ;;;
  match r with
  | (None, k) => pop ;;; fail k
  | (Some a, _) =>
    r2 <-- try q ;;;
    match r2 with
    | (None, k) => pop ;;; fail k
    | (Some b, _) => drop ;;; ret (a, b)
    end
  end.
Definition pSeq3 {A B C} (p : M A) (q : M B) (r : M C) : M (A * B * C) :=
  push ;;;
  x <-- try p ;;;
  match x with
  | (None, k) => pop ;;; fail k
  | (Some a, _) =>
    y <-- try q ;;;
    match y with
    | (None, k) => pop ;;; fail k
    | (Some b, _) =>
      z <-- try r ;;;
      match z with
      | (None, k) => pop ;;; fail k
      | (Some c, _) => drop ;;; ret (a, b, c)
      end
    end
  end.

Definition pSeq4 {A B C D} (p : M A) (q : M B) (r : M C) (t : M D) : M (A * B * C * D) :=
  push ;;;
  x <-- try p ;;;
  match x with
  | (None, k) => pop ;;; fail k
  | (Some a, _) =>
    y <-- try q ;;;
    match y with
    | (None, k) => pop ;;; fail k
    | (Some b, _) =>
      z <-- try r ;;;
      match z with
      | (None, k) => pop ;;; fail k
      | (Some c, _) =>
        w <-- try t ;;;
        match w with
        | (None, k) => pop ;;; fail k
        | (Some d, _) => drop ;;; ret (a, b, c, d)
        end
      end
    end
  end.

(* pars.Any: alternatives are NOT restored in between; "not pushed" aborts *)
Fixpoint any_loop {A} (ps : list (M A)) (last : ekind) : M A :=
  match ps with
  | [] => pop ;;; fail last
  | p :: t =>
    r <-- try p ;;;
    match r with
    | (Some a, _) => drop ;;; ret a
    | (None, k) =>
      b <-- pushed ;;;
      if b then any_loop t k else fail k
    end
  end.
Definition pAny {A} (ps : list (M A)) : M A := push ;;; any_loop ps EOther.

(* pars.Maybe *)
Definition pMaybe {A} (p : M A) : M (option A) :=
  push ;;;
  r <-- try p ;;;
  match r with
  | (None, k) => b <-- pushed ;;; if b then pop ;;; ret None else fail k
  | (Some a, _) => drop ;;; ret (Some a)
  end.

(* pars.Many: stops at the first failure (state left where the failing parser
   left it) or when an iteration made no progress. fuel bounds iterations. *)
Fixpoint many_loop {A} (fuel : nat) (p : M A) (start : Z) (acc : list A) : M (list A) :=
  match fuel with
  | O => nofuel
  | S f =>
    r <-- try p ;;;
    match r with
    | (None, _) => ret (rev acc)
    | (Some a, _) =>
      pos <-- position ;;;
      if pos =? start then ret [] (* returns early; result left as the element *)
      else many_loop f p start (a :: acc)
    end
  end.
Definition pMany {A} (p : M A) : M (list A) :=
  s <-- get ;;; many_loop (S (length (rest s))) p (apos s) [].

(* pars.Exact(p) = Seq(Head, p, End).Map(Child(1)) *)
Definition pExact {A} (p : M A) : M A :=
  pMap (pSeq3 pHead p pEnd) (fun '(_, a, _) => Ok a).

(* untilByte(e) *)
Definition pUntilByte (e : byte) : M (list byte) :=
  push ;;;
  r <-- try next ;;;
  match r with
  | (None, k) => pop ;;; fail k
  | (Some _, _) =>
    advance_while (fun c => negb (c =? e)) ;;;
    s <-- get ;;;
    match rest s with
    | [] => pop ;;; fail EEof
    | _ => trail
    end
  end.

(* pars.Between(l, r) / Quoted: token without the delimiters, backslash
   escapes skipped over *)
Fixpoint between_scan (fuel : nat) (r : byte) (l : list byte) (n : Z) : option Z :=
  (* number of bytes from the first byte after the opening delimiter up to
     (not including) the closing one; None when the input ends first *)
  match fuel with
  | O => None
  | S f =>
    match l with
    | [] => None
    | c :: t =>
      if c =? r then Some n
      else if c =? 92 then
        match t with
        | [] => None
        | _ :: t' => between_scan f r t' (n + 2)
        end
      else between_scan f r t (n + 1)
    end
  end.

Definition pBetween (l r : byte) : M (list byte) :=
  push ;;;
  x <-- try next ;;;
  match x with
  | (None, k) => pop ;;; fail k
  | (Some c, _) =>
    if negb (c =? l) then pop ;;; fail EOther else
    advance ;;;
    s <-- get ;;;
    match between_scan (S (length (rest s))) r (rest s) 0 with
    | None => pop ;;; fail EOther
    | Some n =>
      (* consume n bytes (the loop's Advances), leave a pending Next *)
      put (mkst (skipn (Z.to_nat n) (rest s)) (off s + n) (Some (off s + n + 1))
                (apos s + n) (stk s)) ;;;
      p <-- trail ;;;
      _ <-- try (skip 1) ;;;
      ret (tl p)
    end
  end.
Definition pQuoted (c : byte) : M (list byte) := pBetween c c.

(* pars.Until(q) for a parser argument:
     state.Push(); state.Push()
     for p(state, result) != nil { state.Drop(); if Skip(state,1) fails {Pop; return}; state.Push() }
     state.Pop(); Trail *)
Fixpoint until_loop {A} (fuel : nat) (p : M A) : M unit :=
  match fuel with
  | O => nofuel
  | S f =>
    r <-- try p ;;;
    match r with
    | (Some _, _) => ret tt
    | (None, _) =>
      drop ;;;
      r2 <-- try (skip 1) ;;;
      match r2 with
      | (None, k) => pop ;;; fail k
      | (Some _, _) => push ;;; until_loop f p
      end
    end
  end.

Definition pUntilP {A} (p : M A) : M (list byte) :=
  push ;;; push ;;;
  s <-- get ;;;
  until_loop (S (S (length (rest s)))) p ;;;
  pop ;;;
  b <-- pushed ;;;
  if b then trail else fail EOther.

(* Run a parser on a whole string: Parser.Parse(pars.FromString(s)) *)
Definition run {A} (p : M A) (input : list byte) : out A := fst (p (st_of input)).
