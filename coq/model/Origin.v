(* Origin.v — model of seqio/origin.go and of the ORIGIN readers in
   seqio/genbank_subparsers.go (validateOrigin, slowGenBankOriginParser,
   makeGenbankOriginParser).  Size arithmetic comes from gen/Arith.v. *)
From GTS Require Import Base Arith Pars.
Open Scope Z_scope.

Definition pad9 (k : Z) : list byte := pad_left 9 (itoa k).

(* NewOrigin: inner loop `for j := 0; j < 60 && i+j < length; j += 10` over the
   residues of one line: each group is ' ' followed by p[start:end] *)
Fixpoint ogroups (fuel : nat) (p : list byte) : list byte :=
  match fuel with
  | O => []
  | S f =>
    match p with
    | [] => []
    | _ => 32 :: firstn 10 p ++ ogroups f (skipn 10 p)
    end
  end.

(* outer loop `for i := 0; i < length; i += 60` *)
Fixpoint olines (fuel : nat) (i : Z) (p : list byte) : list byte :=
  match fuel with
  | O => []
  | S f =>
    match p with
    | [] => []
    | _ => pad9 (i + 1) ++ ogroups 6 (firstn 60 p) ++ [10] ++ olines f (i + 60) (skipn 60 p)
    end
  end.

Definition origin_layout (p : list byte) : list byte := olines (S (length p)) 0 p.

(* NewOrigin allocates toOriginLength(len p) bytes and fills them by offset:
   writing past the end panics, writing less leaves zero bytes. *)
Definition new_origin (p : list byte) : out (list byte) :=
  let c := origin_layout p in
  let n := go_toOriginLength (zlen p) in
  if zlen c =? n then Ok c
  else if zlen c <? n then Ok (c ++ repeat_byte 0 (n - zlen c))
  else Panic.

(* Origin.Bytes on an unparsed buffer: the index-stepping decoder.
   State: (start, acc) with acc the residues copied so far (reversed chunks
   appended); q has [len] bytes, copy truncates at its end. *)
Definition copy_into (len : Z) (acc : list byte) (src : list byte) : list byte :=
  acc ++ firstn (Z.to_nat (len - zlen acc)) src.

Fixpoint obytes_groups (fuel : nat) (p : list byte) (len i j start : Z) (acc : list byte)
  : out (Z * list byte) :=
  match fuel with
  | O => Ok (start, acc)
  | S f =>
    if (j <? 60) && (i + j <? len) then
      let start := start + 1 in
      let e := go_Min (start + 10) (zlen p - 1) in
      src <- slice p start e ;;
      (* q[offset:] needs offset <= len(q): offset = |acc| <= len always *)
      obytes_groups f p len i (j + 10) e (copy_into len acc src)
    else Ok (start, acc)
  end.

Fixpoint obytes_lines (fuel : nat) (p : list byte) (len i start : Z) (acc : list byte)
  : out (list byte) :=
  match fuel with
  | O => OutOfFuel
  | S f =>
    if i <? len then
      r <- obytes_groups 6 p len i 0 (start + 9) acc ;;
      let '(start, acc) := r in
      obytes_lines f p len (i + 60) (start + 1) acc
    else Ok (acc ++ repeat_byte 0 (len - zlen acc))
  end.

Definition origin_bytes (p : list byte) : out (list byte) :=
  if zlen p <? 12 then Ok []
  else
    let len := go_fromOriginLength (zlen p) in
    if len <? 0 then Panic (* make([]byte, negative) *)
    else obytes_lines (S (length p)) p len 0 0 [].

(* Origin.Len on an unparsed buffer *)
Definition origin_len (p : list byte) : Z :=
  match p with [] => 0 | _ => go_fromOriginLength (zlen p) end.

Definition is_base_char (c : byte) : bool := (33 <=? c) && (c <=? 126).

(* validateOrigin(p, length, pos): Ok tt = nil, Err = error, Panic = index *)
Fixpoint vo_bases (fuel : nat) (p : list byte) (len i j k offset : Z) : out (option Z) :=
  (* None = "expected character" *)
  match fuel with
  | O => Ok (Some offset)
  | S f =>
    if (k <? 10) && (i + j + k <? len) then
      c <- index p offset ;;
      if is_base_char c then vo_bases f p len i j (k + 1) (offset + 1)
      else Ok None
    else Ok (Some offset)
  end.

Fixpoint vo_groups (fuel : nat) (p : list byte) (len i j offset : Z) : out (option Z) :=
  match fuel with
  | O => Ok (Some offset)
  | S f =>
    if (j <? 60) && (i + j <? len) then
      c <- index p offset ;;
      if negb (c =? 32) then Ok None else
      r <- vo_bases 10 p len i j 0 (offset + 1) ;;
      match r with
      | None => Ok None
      | Some offset => vo_groups f p len i (j + 10) offset
      end
    else Ok (Some offset)
  end.

Fixpoint vo_lines (fuel : nat) (p : list byte) (len i offset : Z) : out bool :=
  match fuel with
  | O => OutOfFuel
  | S f =>
    if i <? len then
      tl_ <- slice p offset (zlen p) ;;
      if negb (is_prefix (pad9 (i + 1)) tl_) then Ok false else
      let offset := offset + zlen (pad9 (i + 1)) in
      r <- vo_groups 6 p len i 0 offset ;;
      match r with
      | None => Ok false
      | Some offset =>
        c <- index p offset ;;
        if negb (c =? 10) then Ok false
        else vo_lines f p len (i + 60) (offset + 1)
      end
    else Ok true
  end.

(* true = accepted (nil error) *)
Definition validate_origin (p : list byte) (len : Z) : out bool :=
  vo_lines (S (Z.to_nat (Z.max 0 len))) p len 0 0.

(* slowGenBankOriginParser(length): reads one line per 60 residues with
   pars.Line; q[extent] is a Go index expression. *)
Fixpoint slow_bases (fuel : nat) (q : list byte) (len i j k extent : Z) : out (option Z) :=
  match fuel with
  | O => Ok (Some extent)
  | S f =>
    if (k <? 10) && (i + j + k <? len) then
      if zlen q <=? extent then Ok None else
      c <- index q extent ;;
      if is_base_char c then slow_bases f q len i j (k + 1) (extent + 1)
      else Ok None
    else Ok (Some extent)
  end.

Fixpoint slow_groups (fuel : nat) (q : list byte) (len i j extent : Z) : out (option Z) :=
  match fuel with
  | O => Ok (Some extent)
  | S f =>
    if (j <? 60) && (i + j <? len) then
      if zlen q <=? extent then Ok None else
      c <- index q extent ;;
      if negb (c =? 32) then Ok None else
      r <- slow_bases 10 q len i j 0 (extent + 1) ;;
      match r with
      | None => Ok None
      | Some extent => slow_groups f q len i (j + 10) extent
      end
    else Ok (Some extent)
  end.

(* the buffer p has toOriginLength(length) bytes; offset+copy / p[offset]='\n' *)
Fixpoint slow_lines (fuel : nat) (len cap i : Z) (acc : list byte) : M (list byte) :=
  match fuel with
  | O => nofuel
  | S f =>
    if i <? len then
      q <-- pLine ;;;
      if negb (is_prefix (pad9 (i + 1)) q) then fail EOther else
      r <-- lift (slow_groups 6 q len i 0 (zlen (pad9 (i + 1)))) ;;;
      match r with
      | None => fail EOther
      | Some extent =>
        if negb (extent =? zlen q) then fail EOther else
        (* offset += copy(p[offset:], q[:extent]); p[offset] = '\n' *)
        let acc := acc ++ firstn (Z.to_nat (cap - zlen acc)) (firstn (Z.to_nat extent) q) in
        if zlen acc <? cap then slow_lines f len cap (i + 60) (acc ++ [10])
        else mpanic
      end
    else ret (acc ++ repeat_byte 0 (cap - zlen acc))
  end.

Definition slow_origin_parser (len : Z) : M (list byte) :=
  let cap := go_toOriginLength len in
  if cap <? 0 then mpanic else
  slow_lines (S (Z.to_nat (Z.max 0 len))) len cap 0 [].

(* the body of makeGenbankOriginParser after the field name and pars.Line:
   returns the (unparsed) origin buffer *)
Definition record_end : M unit :=
  pDry (pAny [pEnd; (pSeq2 (pBytes [47; 47]) pEOL ;;; ret tt)]).

Definition origin_block_parser (len : Z) : M (list byte) :=
  if len <? 0 then fail EOther else
  (* Go: the int64 size wraps negative for lengths near the largest int; over Z it never is *)
  if go_toOriginLength len <? 0 then fail EOther else
  r <-- try (request_z (go_toOriginLength len)) ;;;
  match r with
  | (None, _) => fail EOther
  | (Some _, _) =>
    p <-- buffer ;;;
    v <-- lift (validate_origin p len) ;;;
    p <-- (if v then advance ;;; ret p else slow_origin_parser len) ;;;
    e <-- try record_end ;;;
    match e with
    | (None, _) => fail EOther
    | (Some _, _) => ret p
    end
  end.
