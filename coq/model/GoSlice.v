(* GoSlice.v — Go slices over a heap of backing arrays: what C11 is about.
   A slice is a window (offset, length, capacity) into an array; append writes
   in place when the capacity suffices and allocates a new array otherwise;
   several slices may share an array (sub-slices of one buffer). *)
From GTS Require Import Base.
Open Scope nat_scope.

Section Heap.
  Context {A : Type}.
  Variable dflt : A.                      (* zero value of the element type *)

  Definition heap := list (list A).       (* arrays by id; |array| = its capacity *)

  Record slc := mkslc { arr : nat; soff : nat; slen : nat; scap : nat }.

  Definition array (h : heap) (id : nat) : list A := nth id h [].

  (* what the program reads through the slice *)
  Definition view (h : heap) (s : slc) : list A :=
    firstn (slen s) (skipn (soff s) (array h s.(arr))).

  Definition wf_slc (h : heap) (s : slc) : Prop :=
    arr s < length h /\ soff s + scap s <= length (array h (arr s)) /\ slen s <= scap s.

  (* overwrite l[pos .. pos+|xs|) with xs *)
  Definition write (l : list A) (pos : nat) (xs : list A) : list A :=
    firstn pos l ++ xs ++ skipn (pos + length xs) l.

  Fixpoint set_array (h : heap) (id : nat) (a : list A) : heap :=
    match h, id with
    | [], _ => []
    | _ :: t, O => a :: t
    | x :: t, S k => x :: set_array t k a
    end.

  (* make([]T, len, cap) *)
  Definition go_make (h : heap) (len cap : nat) : heap * slc :=
    (h ++ [repeat dflt cap], mkslc (length h) 0 len cap).

  (* s[lo:hi] (capacity runs on to the end of s's capacity) *)
  Definition subslice (s : slc) (lo hi : nat) : slc :=
    mkslc (arr s) (soff s + lo) (hi - lo) (scap s - lo).

  (* append(s, xs...): in place iff len+|xs| <= cap; otherwise a new array
     (growth policy: exactly what is needed -- any policy gives the same views) *)
  Definition go_append (h : heap) (s : slc) (xs : list A) : heap * slc :=
    if Nat.leb (slen s + length xs) (scap s) then
      (set_array h (arr s) (write (array h (arr s)) (soff s + slen s) xs),
       mkslc (arr s) (soff s) (slen s + length xs) (scap s))
    else
      (h ++ [view h s ++ xs], mkslc (length h) 0 (slen s + length xs) (slen s + length xs)).

  (* copy(dst, src-values): min(len dst, |xs|) elements *)
  Definition go_copy (h : heap) (dst : slc) (xs : list A) : heap :=
    let n := Nat.min (slen dst) (length xs) in
    set_array h (arr dst) (write (array h (arr dst)) (soff dst) (firstn n xs)).

  (* ---------------- the storage lines of the operations (after the fix) *)

  (* insert(p, pos, q): r := make(0, |p|+|q|); append p[:pos], q, p[pos:] *)
  Definition ins_new (h : heap) (p : slc) (pos : nat) (q : slc) : heap * slc :=
    let '(h1, r) := go_make h 0 (slen p + slen q) in
    let '(h2, r) := go_append h1 r (view h1 (subslice p 0 pos)) in
    let '(h3, r) := go_append h2 r (view h2 q) in
    go_append h3 r (view h3 (subslice p pos (slen p))).

  (* before the fix: append(p[:pos], append(q, p[pos:]...)...) *)
  Definition ins_old (h : heap) (p : slc) (pos : nat) (q : slc) : heap * slc :=
    let '(h1, t) := go_append h q (view h (subslice p pos (slen p))) in
    go_append h1 (subslice p 0 pos) (view h1 t).

  (* Rotate: p := make(0,|q|); append q[m:], q[:m] *)
  Definition rot_new (h : heap) (q : slc) (m : nat) : heap * slc :=
    let '(h1, r) := go_make h 0 (slen q) in
    let '(h2, r) := go_append h1 r (view h1 (subslice q m (slen q))) in
    go_append h2 r (view h2 (subslice q 0 m)).

  Definition rot_old (h : heap) (p : slc) (m : nat) : heap * slc :=
    go_append h (subslice p m (slen p)) (view h (subslice p 0 m)).

  (* Concat: p := append([]byte(nil), head...); p = append(p, next...) *)
  Definition cat_new (h : heap) (a b : slc) : heap * slc :=
    let '(h1, r) := go_append h (mkslc (length h) 0 0 0) (view h a) in
    go_append h1 r (view h1 b).
  Definition cat_old (h : heap) (a b : slc) : heap * slc := go_append h a (view h b).

  (* FeatureSlice.Insert at index i: gg := make(len+1); copy; gg[i] = f; copy *)
  Definition fsins_new (h : heap) (ff : slc) (i : nat) (f : A) : heap * slc :=
    let '(h1, gg) := go_make h (slen ff + 1) (slen ff + 1) in
    let h2 := go_copy h1 gg (firstn i (view h1 ff)) in
    let h3 := go_copy h2 (subslice gg i (i + 1)) [f] in
    let h4 := go_copy h3 (subslice gg (i + 1) (slen gg)) (skipn i (view h3 ff)) in
    (h4, gg).

  (* before: ff = append(ff, Feature{}); copy(ff[i+1:], ff[i:]); ff[i] = f *)
  Definition fsins_old (h : heap) (ff : slc) (i : nat) (f : A) : heap * slc :=
    let '(h1, gg) := go_append h ff [dflt] in
    let h2 := go_copy h1 (subslice gg (i + 1) (slen gg)) (view h1 (subslice gg i (slen gg))) in
    let h3 := go_copy h2 (subslice gg i (i + 1)) [f] in
    (h3, gg).

  (* Delete's table: ff := make(len); copy(ff, table); ff[i].Loc = ... (map g) *)
  Definition del_table_new (h : heap) (tab : slc) (g : A -> A) : heap * slc :=
    let '(h1, ff) := go_make h (slen tab) (slen tab) in
    let h2 := go_copy h1 ff (view h1 tab) in
    (go_copy h2 ff (map g (view h2 ff)), ff).
  Definition del_table_old (h : heap) (tab : slc) (g : A -> A) : heap * slc :=
    (go_copy h tab (map g (view h tab)), tab).
End Heap.

(* ---- executable instances for the correspondence (bytes and feature ids as Z) *)
Open Scope Z_scope.

(* layout of the harness: one buffer [pad(2) | host(hl) | guest(gl) | spare] *)
Definition alias_bytes (op : Z) (buf : list Z) (hl gl : Z) (spare : bool) : list Z * list Z :=
  let n := length buf in
  let hl' := Z.to_nat hl in let gl' := Z.to_nat gl in
  (* ops 5, 6: the guest lies before the host, [pad(2) | guest(gl) | host(hl) | spare] *)
  let swapped := (op =? 5) || (op =? 6) in
  let host := if swapped then mkslc 0%nat (2 + gl')%nat hl' (if spare then (n - 2 - gl')%nat else hl')
              else mkslc 0%nat 2%nat hl' (if spare then (n - 2)%nat else hl') in
  let guest := if swapped then mkslc 0%nat 2%nat gl' (if spare then (n - 2)%nat else gl')
               else mkslc 0%nat (2 + hl')%nat gl' (if spare then (n - 2 - hl')%nat else gl') in
  let h := [buf] in
  let '(h', r) :=
    if op =? 0 then ins_new 0 h host (Nat.div hl' 2) guest
    else if op =? 3 then ins_new 0 h host hl' guest          (* insert at the end of the host *)
    else if op =? 4 then ins_new 0 h host 0%nat guest        (* insert at its start *)
    else if op =? 5 then ins_new 0 h host hl' guest
    else if op =? 6 then cat_new h host guest
    else if op =? 1 then rot_new 0 h host (hl' - 2)%nat
    else cat_new h host guest in
  (array h' 0%nat, view h' r).

(* a table of n feature ids 0..n-1 with `spare` free slots (filled with -1),
   inserting id 100 at index i *)
Definition alias_table (n spare i : Z) : list Z * list Z :=
  let n' := Z.to_nat n in
  let store := zrange 0 n ++ repeat (-1) (Z.to_nat spare) in
  let tab := mkslc 0%nat 0%nat n' (n' + Z.to_nat spare)%nat in
  let '(h', r) := fsins_new (-1) [store] tab (Z.to_nat i) 100 in
  (array h' 0%nat, view h' r).
