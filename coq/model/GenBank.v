(* GenBank.v — model of /repo/seqio/genbank.go, genbank_subparsers.go, date.go,
   strings.go, contig.go, reference.go, dictionary.go and of go-wrap's
   wrap.Space: the GenBank record writer (GenBank.String) and reader
   (GenBankParser with every sub-parser), on the pars model. *)
From GTS Require Import Base Arith Tables Pars Loc LocParse Seq Origin Insdc.
Open Scope Z_scope.

(* ---------------------------------------------------------------- data *)

Record reference := mkref {
  r_number : Z; r_info : list byte; r_authors : list byte; r_group : list byte;
  r_title : list byte; r_journal : list byte; r_pubmed : option (list byte); r_comment : list byte }.

Record gbfields := mkfields {
  f_locus : list byte; f_molecule : list byte; f_topology : Z; f_division : list byte;
  f_date : Z * Z * Z;  (* year, month, day *)
  f_definition : list byte; f_accession : list byte; f_version : list byte;
  f_dblink : list (list byte * list byte); f_keywords : list (list byte);
  f_species : list byte; f_organism : list byte; f_taxon : list (list byte);
  f_references : list reference; f_comments : list (list byte);
  f_extra : list (list byte * list byte);
  f_contig : list byte * Z * Z;          (* accession, head, tail *)
  f_region : option (Z * Z) }.

Record genbank := mkgb { gb_fields : gbfields; gb_table : list feature; gb_origin : list byte }.

Definition empty_fields : gbfields :=
  mkfields [] [] 0 [] (0, 0, 0) [] [] [] [] [] [] [] [] [] [] [] ([], 0, 0) None.

(* ---------------------------------------------------------------- strings *)

Definition s_of (l : list Z) : list byte := l.
Definition str_LOCUS := [76; 79; 67; 85; 83].
Definition indent12 : list byte := repeat_byte 32 12.

Fixpoint index_byte_from (c : byte) (s : list byte) (i : nat) : option nat :=
  match s with
  | [] => None
  | x :: t => if x =? c then Some i else index_byte_from c t (S i)
  end.

Fixpoint last_index_byte (c : byte) (s : list byte) (i : nat) (acc : option nat) : option nat :=
  match s with
  | [] => acc
  | x :: t => last_index_byte c t (S i) (if x =? c then Some i else acc)
  end.

(* wrap.At(s, c, n) of go-wrap *)
Fixpoint wrap_at (fuel : nat) (s : list byte) (c : byte) (n : nat) : list byte :=
  match fuel with
  | O => s
  | S f =>
    match index_byte_from 10 s 0 with
    | Some i => wrap_at f (firstn i s) c n ++ [10] ++ wrap_at f (skipn (S i) s) c n
    | None =>
      if Nat.ltb n (length s) then
        match last_index_byte c (firstn n s) 0 None with
        | Some i => firstn i s ++ [10] ++ wrap_at f (skipn (S i) s) c n
        | None =>
          match index_byte_from c s 0 with
          | Some i => firstn i s ++ [10] ++ wrap_at f (skipn (S i) s) c n
          | None => s
          end
        end
      else s
    end
  end.
Definition wrap_space (s : list byte) (n : nat) : list byte := wrap_at (S (length s)) s 32 n.

(* strings.Join(parts, "; ") *)
Definition join_semi (l : list (list byte)) : list byte := sep_by [59; 32] l.

(* strings.Split(s, "; ") *)
Fixpoint split_semi (fuel : nat) (s cur : list byte) : list (list byte) :=
  match fuel with
  | O => [rev cur ++ s]
  | S f =>
    match s with
    | 59 :: 32 :: t => rev cur :: split_semi f t []
    | c :: t => split_semi f t (c :: cur)
    | [] => [rev cur]
    end
  end.

(* FlatFileSplit: TrimSuffix(s, "."); empty -> nil; Split "; " *)
Definition flatfile_split (s : list byte) : list (list byte) :=
  let s := match rev s with 46 :: r => rev r | _ => s end in
  match s with
  | [] => []
  | _ => split_semi (S (length s)) s []
  end.

(* ---------------------------------------------------------------- dates *)

Definition month_names : list (list byte) :=
  [[74;65;78]; [70;69;66]; [77;65;82]; [65;80;82]; [77;65;89]; [74;85;78];
   [74;85;76]; [65;85;71]; [83;69;80]; [79;67;84]; [78;79;86]; [68;69;67]].
Definition month_names_title : list (list byte) :=
  [[74;97;110]; [70;101;98]; [77;97;114]; [65;112;114]; [77;97;121]; [74;117;110];
   [74;117;108]; [65;117;103]; [83;101;112]; [79;99;116]; [78;111;118]; [68;101;99]].
Definition month_numbers : list (list byte) :=
  [[48;49]; [48;50]; [48;51]; [48;52]; [48;53]; [48;54]; [48;55]; [48;56]; [48;57]; [49;48]; [49;49]; [49;50]].

Fixpoint find_index (s : list byte) (l : list (list byte)) (i : Z) : option Z :=
  match l with
  | [] => None
  | x :: t => if bytes_eqb x s then Some i else find_index s t (i + 1)
  end.

Definition month_of (s : list byte) : option Z :=
  match find_index s month_names 1 with
  | Some m => Some m
  | None => match find_index s month_names_title 1 with
            | Some m => Some m
            | None => find_index s month_numbers 1
            end
  end.

Definition days_in (m : Z) : Z :=
  if m =? 2 then 28
  else if (m =? 4) || (m =? 6) || (m =? 9) || (m =? 11) then 30 else 31.

Fixpoint split_dash (s cur : list byte) : list (list byte) :=
  match s with
  | [] => [rev cur]
  | c :: t => if c =? 45 then rev cur :: split_dash t [] else split_dash t (c :: cur)
  end.

(* strconv.Atoi: optional sign, digits, optional underscores are NOT allowed *)
Definition as_date (s : list byte) : out (Z * Z * Z) :=
  match split_dash s [] with
  | [sday; smonth; syear] =>
    day <- atoi sday ;;
    match month_of smonth with
    | None => Err EOther
    | Some month =>
      year <- atoi syear ;;
      let dmax := days_in month + (if (month =? 2) && go_isLeapYear year then 1 else 0) in
      if day <? 1 then Err EOther else if dmax <? day then Err EOther
      else Ok (year, month, day)
    end
  | _ => Err EOther
  end.

(* strings.ToUpper(d.ToTime().Format("02-Jan-2006")) for a valid date *)
Definition two_digits (n : Z) : list byte := [48 + n / 10; 48 + n mod 10].
Definition four_digits (n : Z) : list byte :=
  if n <? 10000 then [48 + n / 1000; 48 + (n / 100) mod 10; 48 + (n / 10) mod 10; 48 + n mod 10]
  else itoa n.
Definition date_show (d : Z * Z * Z) : list byte :=
  let '(y, m, dd) := d in
  two_digits dd ++ [45] ++ nth (Z.to_nat (m - 1)) month_names [] ++ [45] ++ four_digits y.

(* ---------------------------------------------------------------- writer *)

Definition topology_show (t : Z) : list byte :=
  if t =? 0 then [108;105;110;101;97;114]
  else if t =? 1 then [99;105;114;99;117;108;97;114] else [].

(* AddPrefix(s, prefix) *)
Definition nl : list byte := [10].

Definition reference_show (r : reference) : out (list byte) :=
  let num := itoa (r_number r) in
  head <- (match r_info r with
           | [] => Ok ([82;69;70;69;82;69;78;67;69;32;32;32] ++ num)
           | info => Ok ([82;69;70;69;82;69;78;67;69;32;32;32] ++ num ++ repeat_byte 32 (Z.max 0 (3 - zlen num)) ++ info)
           end) ;;
  let sub (name value : list byte) : list byte :=
    match value with [] => [] | _ => name ++ add_prefix value indent12 ++ nl end in
  Ok (head ++ nl ++
      sub [32;32;65;85;84;72;79;82;83;32;32;32] (r_authors r) ++
      sub [32;32;67;79;78;83;82;84;77;32;32;32] (r_group r) ++
      sub [32;32;84;73;84;76;69;32;32;32;32;32] (r_title r) ++
      sub [32;32;74;79;85;82;78;65;76;32;32;32] (r_journal r) ++
      (match r_pubmed r with Some v => [32;32;32;80;85;66;77;69;68;32;32;32] ++ v ++ nl | None => [] end) ++
      sub [32;32;82;69;77;65;82;75;32;32;32;32] (r_comment r)).

Definition contig_show (c : list byte * Z * Z) : list byte :=
  let '(acc, h, t) := c in
  match acc with
  | [] => []
  | _ => [106;111;105;110;40] ++ acc ++ [58] ++ itoa (h + 1) ++ [46;46] ++ itoa t ++ [41]
  end.

(* fmt "%-12s%s" with AddPrefix *)
Definition extra_show (name value : list byte) : list byte :=
  pad_right 12 name ++ add_prefix value indent12.

(* GenBank.String *)
Definition gb_show (reg : registry) (g : genbank) : out (list byte) :=
  let f := gb_fields g in
  let olen := origin_len (gb_origin g) in
  let length := if olen =? 0 then (let '(_, h, t) := f_contig f in go_Abs (t - h)) else olen in
  let locus :=
    pad_right 12 str_LOCUS ++ pad_right 17 (f_locus f) ++ [32] ++ pad_left 10 (itoa length) ++ [32;98;112;32] ++
    pad_left 6 (f_molecule f) ++ [32;32;32;32;32] ++ pad_right 9 (topology_show (f_topology f)) ++
    f_division f ++ [32] ++ date_show (f_date f) in
  refs <- omapM reference_show (f_references f) ;;
  table <- table_show reg [32;32;32;32;32] 21 (gb_table g) ;;
  Ok (locus ++ nl ++
      [68;69;70;73;78;73;84;73;79;78;32;32] ++ add_prefix (f_definition f) indent12 ++ [46] ++ nl ++
      [65;67;67;69;83;83;73;79;78;32;32;32] ++ f_accession f ++
      (match f_region f with
       | Some (h, t) => [32;82;69;71;73;79;78;58;32] ++ itoa (h + 1) ++ [46;46] ++ itoa t
       | None => []
       end) ++ nl ++
      [86;69;82;83;73;79;78;32;32;32;32;32] ++ f_version f ++ nl ++
      concat (map (fun '(i, (k, v)) =>
                     (if (i : Z) =? 0 then [68;66;76;73;78;75;32;32;32;32;32;32] else indent12) ++ k ++ [58; 32] ++ v ++ nl)
                  (combine (zrange 0 (zlen (f_dblink f))) (f_dblink f))) ++
      [75;69;89;87;79;82;68;83;32;32;32;32] ++ add_prefix (wrap_space (join_semi (f_keywords f) ++ [46]) 67) indent12 ++ nl ++
      [83;79;85;82;67;69;32;32;32;32;32;32] ++ add_prefix (wrap_space (f_species f) 67) indent12 ++ nl ++
      [32;32;79;82;71;65;78;73;83;77;32;32] ++ add_prefix (wrap_space (f_organism f) 67) indent12 ++ nl ++
      indent12 ++ add_prefix (wrap_space (join_semi (f_taxon f) ++ [46]) 67) indent12 ++ nl ++
      concat refs ++
      concat (map (fun c => [67;79;77;77;69;78;84;32;32;32;32;32] ++ add_prefix c indent12 ++ nl) (f_comments f)) ++
      concat (map (fun '(n, v) => extra_show n v ++ nl) (f_extra f)) ++
      [70;69;65;84;85;82;69;83;32;32;32;32;32;32;32;32;32;32;32;32;32;
       76;111;99;97;116;105;111;110;47;81;117;97;108;105;102;105;101;114;115] ++ nl ++
      (match gb_table g with [] => [] | _ => table ++ nl end) ++
      (match contig_show (f_contig f) with
       | [] => []
       | c => [67;79;78;84;73;71;32;32;32;32;32;32] ++ c ++ nl
       end) ++
      (if 0 <? olen then [79;82;73;71;73;78;32;32;32;32;32;32] ++ nl ++ gb_origin g else []) ++
      [47; 47] ++ nl).

(* ---------------------------------------------------------------- GenBankFields.Slice *)

(* parseReferenceInfo(prefix): "(bases A to B; C to D)" as 0-based ranges *)
Definition ref_range : M (Z * Z) :=
  pMap (pSeq3 pInt (pBytes [32;116;111;32]) pInt)
       (fun '(a, _, b) => if b <=? a - 1 then Err EOther else Ok (a - 1, b)).

Definition ref_info_parser (prefix : list byte) : M (list (Z * Z)) :=
  pMap (pSeq4 (pBytes ([40] ++ prefix ++ [32])) ref_range
              (pMany (pMap (pSeq2 (pBytes [59; 32]) ref_range) (fun x => Ok (snd x))))
              (pByte 41))
       (fun '(_, h, t, _) => Ok (h :: t)).

(* Molecule.Counter *)
Definition counter (mol : list byte) : list byte :=
  if bytes_eqb mol [65;65] then [114;101;115;105;100;117;101;115] else [98;97;115;101;115].

Definition with_info (r : reference) (info : list byte) : reference :=
  mkref (r_number r) info (r_authors r) (r_group r) (r_title r) (r_journal r) (r_pubmed r) (r_comment r).
Definition with_number (r : reference) (n : Z) : reference :=
  mkref n (r_info r) (r_authors r) (r_group r) (r_title r) (r_journal r) (r_pubmed r) (r_comment r).

(* the ranges of one reference that overlap the window, clipped and re-based *)
Definition clip_ranges (start end_ : Z) (locs : list (Z * Z)) : list (Z * Z) :=
  map (fun '(s, e) => (go_Max 0 (s - start), go_Min (end_ - start) (e - start)))
      (filter (fun '(s, e) => negb (start =? end_) && go_rangeOverlap s e start end_) locs).

Definition show_ranges (prefix : list byte) (rs : list (Z * Z)) : list byte :=
  [40] ++ prefix ++ [32] ++
  sep_by [59; 32] (map (fun '(h, t) => itoa (h + 1) ++ [32;116;111;32] ++ itoa t) rs) ++ [41].

(* None: dropped; the reference with unparsable info is kept as it is *)
Definition ref_slice_one (prefix : list byte) (start end_ : Z) (r : reference) : out (option reference) :=
  match run (ref_info_parser prefix) (r_info r) with
  | Ok locs =>
    match clip_ranges start end_ locs with
    | [] => Ok None
    | rs => Ok (Some (with_info r (show_ranges prefix rs)))
    end
  | Err _ => Ok (Some r)
  | Panic => Panic
  | OutOfFuel => OutOfFuel
  end.

Fixpoint renumber (n : Z) (rs : list reference) : list reference :=
  match rs with [] => [] | r :: t => with_number r n :: renumber (n + 1) t end.

Fixpoint keep_some {A} (l : list (option A)) : list A :=
  match l with [] => [] | Some a :: t => a :: keep_some t | None :: t => keep_some t end.

(* the References of GenBankFields.Slice(start, end) *)
Definition refs_slice (mol : list byte) (start end_ : Z) (refs : list reference) : out (list reference) :=
  rs <- omapM (ref_slice_one (counter mol) start end_) refs ;;
  Ok (renumber 1 (keep_some rs)).

(* ---------------------------------------------------------------- reader *)

Definition not_space (c : byte) : bool := negb (is_space c).

(* genbankLocusParser: the seven children it keeps *)
Definition locus_parser : M (Z * list byte * Z * list byte * list byte * list byte * (Z * Z * Z)) :=
  pMap
    (push ;;;
     let seqfail {A} (k : ekind) : M A := pop ;;; fail k in
     a <-- try (pBytes str_LOCUS) ;;;
     match a with (None, k) => seqfail k | _ =>
     sp <-- pSpaces ;;;
     n <-- try (pWord not_space) ;;;
     match n with (None, k) => seqfail k | (Some name, _) =>
     _ <-- pSpaces ;;;
     i <-- try pInt ;;;
     match i with (None, k) => seqfail k | (Some len, _) =>
     u <-- try (pAny [pBytes [32;98;112]; pBytes [32;97;97]]) ;;;
     match u with (None, k) => seqfail k | _ =>
     _ <-- pSpaces ;;;
     m <-- try (pWord not_space) ;;;
     match m with (None, k) => seqfail k | (Some mol, _) =>
     _ <-- pSpaces ;;;
     t <-- try (pWord not_space) ;;;
     match t with (None, k) => seqfail k | (Some top, _) =>
     _ <-- pSpaces ;;;
     d <-- try (pMaybe (pMap (pSeq3 (pFilter is_upper) (pFilter is_upper) (pFilter is_upper))
                             (fun '(x, y, z) => Ok [x; y; z]))) ;;;
     match d with (None, k) => seqfail k | (Some dv, _) =>
     _ <-- pSpaces ;;;
     dt <-- try (pMap pLine as_date) ;;;
     match dt with (None, k) => seqfail k | (Some date, _) =>
       drop ;;; ret (zlen sp + 5, name, len, mol, top, match dv with Some x => x | None => [] end, date)
     end end end end end end end end)
    (fun x => Ok x).

(* how the padding after a field name matched: the length left in pars.Void.Token *)
Definition field_name_parser (name_parser : M (list byte)) (depth : Z) : M (list byte * Z) :=
  name <-- name_parser ;;;
  let indent_len := depth - zlen name in
  if indent_len <? 0 then clear ;;; fail EOther else
  r <-- try (pAny [pBytes (repeat_byte 32 indent_len) ;;; ret 0;
                   (e <-- pDry pEOL ;;; ret (zlen e))]) ;;;
  match r with
  | (None, _) => clear ;;; fail EOther
  | (Some v, _) => ret (name, v)
  end.

Definition fixed_name (s : list byte) : M (list byte) := pBytes s ;;; ret s.

(* genbankFieldLineParser(depth) *)
Definition field_line_parser (depth : Z) : M (list byte) :=
  r <-- try (pBytes (repeat_byte 32 depth)) ;;;
  match r with
  | (None, _) => fail EOther
  | (Some _, _) => pLine
  end.

(* genbankFieldBodyParser(depth, sep); the flag says whether a continuation
   line matched (its indent parser then reset pars.Void.Token to nil) *)
Fixpoint body_loop (fuel : nat) (depth : Z) (sep : byte) (acc : list byte) (m : bool) : M (list byte * bool) :=
  match fuel with
  | O => nofuel
  | S f =>
    r <-- try (field_line_parser depth) ;;;
    match r with
    | (None, _) => ret (acc, m)
    | (Some l, _) => body_loop f depth sep (acc ++ [sep] ++ l) true
    end
  end.
Definition field_body_parser' (depth : Z) (sep : byte) : M (list byte * bool) :=
  first <-- pLine ;;;
  s <-- get ;;;
  body_loop (S (length (rest s))) depth sep first false.
Definition field_body_parser (depth : Z) (sep : byte) : M (list byte) :=
  r <-- field_body_parser' depth sep ;;; ret (fst r).

(* returns the body and the length of the token left behind in pars.Void *)
Definition generic_field_parser (name : list byte) (depth : Z) : M (list byte * Z) :=
  nv <-- field_name_parser (fixed_name name) depth ;;;
  b <-- field_body_parser' depth 10 ;;;
  ret (fst b, if snd b then 0 else snd nv).

(* genbankSubfieldNameParser(name, depth) applied to a Result whose Token has
   length stale; void says that Result is pars.Void itself, which the name
   parser (a String parser handed pars.Void) resets *)
Definition subfield_name_parser (name : list byte) (depth : Z) (stale : Z) (void : bool) : M unit :=
  p <-- try (pWord (fun c => c =? 32)) ;;;
  let prefix_len := match p with (Some t, _) => zlen t | (None, _) => stale end in
  if prefix_len =? 0 then fail EOther else
  pBytes name ;;;
  q <-- try (pWord (fun c => c =? 32)) ;;;
  let suffix_len := match q with (Some t, _) => zlen t | (None, _) => if void then 0 else prefix_len end in
  if negb (prefix_len + zlen name + suffix_len =? depth) then fail EOther else ret tt.

Definition generic_subfield_parser (name : list byte) (depth : Z) (stale : Z) : M (list byte) :=
  subfield_name_parser name depth stale false ;;; field_body_parser depth 10.

(* Dictionary.Set *)
Fixpoint dict_set (d : list (list byte * list byte)) (k v : list byte) : list (list byte * list byte) :=
  match d with
  | [] => [(k, v)]
  | (k', v') :: t => if bytes_eqb k' k then (k', v) :: t else (k', v') :: dict_set t k v
  end.

(* genbankDBLinkPairParser *)
Definition dblink_pair (d : list (list byte * list byte)) : M (list (list byte * list byte)) :=
  s <-- pLine ;;;
  match index_byte_from 58 s 0 with
  | None => fail EOther
  | Some i =>
    if Nat.ltb (length s) (i + 2) then fail EOther
    else ret (dict_set d (firstn i s) (skipn (i + 2) s))
  end.

Fixpoint dblink_loop (fuel : nat) (depth : Z) (d : list (list byte * list byte))
  : M (list (list byte * list byte) * option ekind) :=
  match fuel with
  | O => nofuel
  | S f =>
    r <-- try (pBytes (repeat_byte 32 depth)) ;;;
    match r with
    | (None, _) => ret (d, None)
    | (Some _, _) =>
      x <-- try (dblink_pair d) ;;;
      match x with
      | (Some d', _) => dblink_loop f depth d'
      | (None, k) => ret (d, Some k)
      end
    end
  end.

(* the six reference subfields, tried in order by pars.Any; stale token length threaded *)
Definition s_AUTHORS := [65;85;84;72;79;82;83].
Definition s_CONSRTM := [67;79;78;83;82;84;77].
Definition s_TITLE := [84;73;84;76;69].
Definition s_JOURNAL := [74;79;85;82;78;65;76].
Definition s_PUBMED := [80;85;66;77;69;68].
Definition s_REMARK := [82;69;77;65;82;75].

Definition ref_subfield (depth : Z) (stale : Z) (r : reference) : M (reference * Z) :=
  let alt (name : list byte) (upd : list byte -> reference) : M (reference * Z) :=
    pMap (generic_subfield_parser name depth stale) (fun v => Ok (upd v, zlen v)) in
  pAny [
    alt s_AUTHORS (fun v => mkref (r_number r) (r_info r) v (r_group r) (r_title r) (r_journal r) (r_pubmed r) (r_comment r));
    alt s_CONSRTM (fun v => mkref (r_number r) (r_info r) (r_authors r) v (r_title r) (r_journal r) (r_pubmed r) (r_comment r));
    alt s_TITLE (fun v => mkref (r_number r) (r_info r) (r_authors r) (r_group r) v (r_journal r) (r_pubmed r) (r_comment r));
    alt s_JOURNAL (fun v => mkref (r_number r) (r_info r) (r_authors r) (r_group r) (r_title r) v (r_pubmed r) (r_comment r));
    alt s_PUBMED (fun v => mkref (r_number r) (r_info r) (r_authors r) (r_group r) (r_title r) (r_journal r) (Some v) (r_comment r));
    alt s_REMARK (fun v => mkref (r_number r) (r_info r) (r_authors r) (r_group r) (r_title r) (r_journal r) (r_pubmed r) v)].

Fixpoint ref_loop (fuel : nat) (depth stale : Z) (r : reference) : M reference :=
  match fuel with
  | O => nofuel
  | S f =>
    x <-- try (ref_subfield depth stale r) ;;;
    match x with
    | (None, _) => ret r
    | (Some (r', st), _) => ref_loop f depth st r'
    end
  end.

(* the state of the record being read *)
Record acc := mkacc { a_fields : gbfields; a_table : list feature; a_origin : list byte; a_reg : registry }.

Definition upd_fields (a : acc) (f : gbfields) : acc := mkacc f (a_table a) (a_origin a) (a_reg a).

Definition set_definition f v := mkfields (f_locus f) (f_molecule f) (f_topology f) (f_division f) (f_date f) v (f_accession f) (f_version f) (f_dblink f) (f_keywords f) (f_species f) (f_organism f) (f_taxon f) (f_references f) (f_comments f) (f_extra f) (f_contig f) (f_region f).
Definition set_accession f v := mkfields (f_locus f) (f_molecule f) (f_topology f) (f_division f) (f_date f) (f_definition f) v (f_version f) (f_dblink f) (f_keywords f) (f_species f) (f_organism f) (f_taxon f) (f_references f) (f_comments f) (f_extra f) (f_contig f) (f_region f).
Definition set_version f v := mkfields (f_locus f) (f_molecule f) (f_topology f) (f_division f) (f_date f) (f_definition f) (f_accession f) v (f_dblink f) (f_keywords f) (f_species f) (f_organism f) (f_taxon f) (f_references f) (f_comments f) (f_extra f) (f_contig f) (f_region f).
Definition set_dblink f v := mkfields (f_locus f) (f_molecule f) (f_topology f) (f_division f) (f_date f) (f_definition f) (f_accession f) (f_version f) v (f_keywords f) (f_species f) (f_organism f) (f_taxon f) (f_references f) (f_comments f) (f_extra f) (f_contig f) (f_region f).
Definition set_keywords f v := mkfields (f_locus f) (f_molecule f) (f_topology f) (f_division f) (f_date f) (f_definition f) (f_accession f) (f_version f) (f_dblink f) v (f_species f) (f_organism f) (f_taxon f) (f_references f) (f_comments f) (f_extra f) (f_contig f) (f_region f).
Definition set_source f s o t := mkfields (f_locus f) (f_molecule f) (f_topology f) (f_division f) (f_date f) (f_definition f) (f_accession f) (f_version f) (f_dblink f) (f_keywords f) s o t (f_references f) (f_comments f) (f_extra f) (f_contig f) (f_region f).
Definition set_species f s := set_source f s (f_organism f) (f_taxon f).
Definition add_reference f r := mkfields (f_locus f) (f_molecule f) (f_topology f) (f_division f) (f_date f) (f_definition f) (f_accession f) (f_version f) (f_dblink f) (f_keywords f) (f_species f) (f_organism f) (f_taxon f) (f_references f ++ [r]) (f_comments f) (f_extra f) (f_contig f) (f_region f).
Definition add_comment f c := mkfields (f_locus f) (f_molecule f) (f_topology f) (f_division f) (f_date f) (f_definition f) (f_accession f) (f_version f) (f_dblink f) (f_keywords f) (f_species f) (f_organism f) (f_taxon f) (f_references f) (f_comments f ++ [c]) (f_extra f) (f_contig f) (f_region f).
Definition add_extra f n v := mkfields (f_locus f) (f_molecule f) (f_topology f) (f_division f) (f_date f) (f_definition f) (f_accession f) (f_version f) (f_dblink f) (f_keywords f) (f_species f) (f_organism f) (f_taxon f) (f_references f) (f_comments f) (f_extra f ++ [(n, v)]) (f_contig f) (f_region f).
Definition set_contig f c := mkfields (f_locus f) (f_molecule f) (f_topology f) (f_division f) (f_date f) (f_definition f) (f_accession f) (f_version f) (f_dblink f) (f_keywords f) (f_species f) (f_organism f) (f_taxon f) (f_references f) (f_comments f) (f_extra f) c (f_region f).

Definition s_of_string (l : list Z) := l.
Definition n_DEFINITION := [68;69;70;73;78;73;84;73;79;78].
Definition n_ACCESSION := [65;67;67;69;83;83;73;79;78].
Definition n_VERSION := [86;69;82;83;73;79;78].
Definition n_DBLINK := [68;66;76;73;78;75].
Definition n_KEYWORDS := [75;69;89;87;79;82;68;83].
Definition n_SOURCE := [83;79;85;82;67;69].
Definition n_ORGANISM := [79;82;71;65;78;73;83;77].
Definition n_REFERENCE := [82;69;70;69;82;69;78;67;69].
Definition n_COMMENT := [67;79;77;77;69;78;84].
Definition n_FEATURES := [70;69;65;84;85;82;69;83].
Definition n_CONTIG := [67;79;78;84;73;71].
Definition n_ORIGIN := [79;82;73;71;73;78].

(* the twelve sub-parsers.  Go mutates the record through a pointer, so a
   sub-parser that fails after a partial update (DBLINK pairs, SOURCE species)
   leaves the update behind: each returns the record and the error, if any *)
Definition sub := acc -> M (acc * option ekind).
Definition sub_of (p : acc -> M acc) : sub := fun a =>
  r <-- try (p a) ;;;
  match r with
  | (Some a', _) => ret (a', None)
  | (None, k) => ret (a, Some k)
  end.

Definition p_definition (depth : Z) : sub := sub_of (fun a =>
  pMap (generic_field_parser n_DEFINITION depth)
       (fun '(p, _) =>
          match rev p with
          | [] => Ok (upd_fields a (set_definition (a_fields a) []))
          | 46 :: r => Ok (upd_fields a (set_definition (a_fields a) (rev r)))
          | _ => Err EOther
          end)).

Definition p_accession (depth : Z) : sub := sub_of (fun a =>
  pMap (generic_field_parser n_ACCESSION depth) (fun '(p, _) => Ok (upd_fields a (set_accession (a_fields a) p)))).

Definition p_version (depth : Z) : sub := sub_of (fun a =>
  pMap (generic_field_parser n_VERSION depth) (fun '(p, _) => Ok (upd_fields a (set_version (a_fields a) p)))).

Definition p_dblink (depth : Z) : sub := fun a =>
  n <-- try (field_name_parser (fixed_name n_DBLINK) depth) ;;;
  match n with
  | (None, k) => ret (a, Some k)
  | (Some _, _) =>
    d <-- try (dblink_pair (f_dblink (a_fields a))) ;;;
    match d with
    | (None, k) => ret (a, Some k)
    | (Some d1, _) =>
      s <-- get ;;;
      r <-- dblink_loop (S (length (rest s))) depth d1 ;;;
      ret (upd_fields a (set_dblink (a_fields a) (fst r)), snd r)
    end
  end.

Definition p_keywords (depth : Z) : sub := sub_of (fun a =>
  _ <-- field_name_parser (fixed_name n_KEYWORDS) depth ;;;
  b <-- field_body_parser depth 32 ;;;
  ret (upd_fields a (set_keywords (a_fields a) (flatfile_split b)))).

Fixpoint taxon_loop (fuel : nat) (depth : Z) (acc0 : list byte) : M (list byte) :=
  match fuel with
  | O => nofuel
  | S f =>
    r <-- try (field_line_parser depth) ;;;
    match r with
    | (None, _) => ret acc0
    | (Some l, _) => taxon_loop f depth (match acc0 with [] => l | _ => acc0 ++ [32] ++ l end)
    end
  end.

(* genbankSourceParser: the species is stored as soon as the SOURCE field
   parsed, and a failing ORGANISM subfield pops a frame it never pushed *)
Definition p_source (depth : Z) : sub := fun a =>
  sv <-- try (pMap (generic_field_parser n_SOURCE depth) (fun x => Ok x)) ;;;
  match sv with
  | (None, k) => ret (a, Some k)
  | (Some (species, vtok), _) =>
    let a1 := upd_fields a (set_species (a_fields a) species) in
    o <-- try (subfield_name_parser n_ORGANISM depth vtok true) ;;;
    match o with
    | (None, k) => pop ;;; ret (a1, Some k)
    | (Some _, _) =>
      name <-- pLine ;;;
      s <-- get ;;;
      tx <-- taxon_loop (S (length (rest s))) depth [] ;;;
      ret (upd_fields a1 (set_source (a_fields a1) species name (flatfile_split tx)), None)
    end
  end.

Definition p_reference (depth : Z) : sub := sub_of (fun a =>
  _ <-- field_name_parser (fixed_name n_REFERENCE) depth ;;;
  n <-- pInt ;;;
  let padlen := Z.max 0 (3 - zlen (itoa n)) in
  _ <-- try (pBytes (repeat_byte 32 padlen)) ;;;
  info <-- pLine ;;;
  s <-- get ;;;
  r <-- ref_loop (S (length (rest s))) depth (zlen info) (mkref n info [] [] [] [] None []) ;;;
  ret (upd_fields a (add_reference (a_fields a) r))).

Definition p_comment (depth : Z) : sub := sub_of (fun a =>
  pMap (generic_field_parser n_COMMENT depth) (fun '(p, _) => Ok (upd_fields a (add_comment (a_fields a) p)))).

(* the registry is process-global in Go; it changes only when a qualifier value
   parsed, after which the table parser cannot fail, so threading it through
   the successful result loses nothing *)
Definition p_features (depth : Z) : sub := sub_of (fun a =>
  pBytes n_FEATURES ;;;
  _ <-- pLine ;;;
  clear ;;;
  c <-- try next ;;;
  match c with
  | (Some x, _) =>
    if negb (x =? 32) then ret (mkacc (a_fields a) [] (a_origin a) (a_reg a))
    else tr <-- table_parser [] (a_reg a) ;;; ret (mkacc (a_fields a) (fst tr) (a_origin a) (snd tr))
  | (None, _) =>
    tr <-- table_parser [] (a_reg a) ;;; ret (mkacc (a_fields a) (fst tr) (a_origin a) (snd tr))
  end).

Definition p_contig (depth : Z) : sub := sub_of (fun a =>
  _ <-- field_name_parser (fixed_name n_CONTIG) depth ;;;
  pBytes [106;111;105;110;40] ;;;
  accn <-- pUntilByte 58 ;;;
  _ <-- try (skip 1) ;;;
  h <-- pInt ;;;
  pBytes [46; 46] ;;;
  t <-- pInt ;;;
  _ <-- pByte 41 ;;;
  ret (upd_fields a (set_contig (a_fields a) (accn, h - 1, t)))).

Definition p_origin (len depth : Z) : sub := sub_of (fun a =>
  _ <-- field_name_parser (fixed_name n_ORIGIN) depth ;;;
  _ <-- pLine ;;;
  o <-- origin_block_parser len ;;;
  ret (mkacc (a_fields a) (a_table a) o (a_reg a))).

Definition p_extra (depth : Z) : sub := sub_of (fun a =>
  n <-- try (field_name_parser (pWord is_upper) depth) ;;;
  match n with
  | (None, _) => fail EExtra
  | (Some (name, _), _) =>
    v <-- field_body_parser depth 10 ;;;
    ret (upd_fields a (add_extra (a_fields a) name v))
  end).

(* tryAllParsers *)
Fixpoint try_all (ps : list sub) (a : acc) (last : ekind) : M (acc * option ekind) :=
  match ps with
  | [] => ret (a, Some last)
  | p :: t =>
    push ;;;
    r <-- p a ;;;
    match r with
    | (a', None) => drop ;;; ret (a', None)
    | (a', Some k) =>
      b <-- pushed ;;;
      if b then pop ;;; try_all t a' k else ret (a', Some k)
    end
  end.

Definition subparsers (len depth : Z) : list sub :=
  [p_definition depth; p_accession depth; p_version depth; p_dblink depth;
   p_keywords depth; p_source depth; p_reference depth; p_comment depth;
   p_features depth; p_contig depth; p_origin len depth; p_extra depth].

Definition record_end_parser : M unit := pSeq2 (pBytes [47; 47]) pEOL ;;; ret tt.

Fixpoint field_loop (fuel : nat) (len depth : Z) (a : acc) : M acc :=
  match fuel with
  | O => nofuel
  | S f =>
    e <-- try record_end_parser ;;;
    match e with
    | (Some _, _) => ret a
    | (None, _) =>
      r <-- try_all (subparsers len depth) a EOther ;;;
      match r with
      | (a', None) => field_loop f len depth a'
      | (a', Some EExtra) =>
        _ <-- pLine ;;;
        x <-- try pEnd ;;;
        match x with
        | (Some _, _) => fail EOther   (* errGenBankField *)
        | (None, _) => field_loop f len depth a'
        end
      | (_, Some k) => fail k
      end
    end
  end.

Definition is_molecule (s : list byte) : bool :=
  existsb (bytes_eqb s) [[68;78;65]; [82;78;65]; [65;65]; [115;115;45;68;78;65]; [100;115;45;68;78;65]].

Definition lower_ascii (c : byte) : byte := if (65 <=? c) && (c <=? 90) then c + 32 else c.

(* GenBankParser *)
Definition genbank_parser (reg : registry) : M (genbank * registry) :=
  l <-- locus_parser ;;;
  clear ;;;
  let '(depth, name, len, mol, top, dv, date) := l in
  if negb (is_molecule mol) then fail EOther else
  let topl := map lower_ascii top in
  t <-- (if bytes_eqb topl [108;105;110;101;97;114] then ret 0
         else if bytes_eqb topl [99;105;114;99;117;108;97;114] then ret 1 else fail EOther) ;;;
  let f0 := mkfields name mol t dv date [] [] [] [] [] [] [] [] [] [] [] ([], 0, 0) None in
  s <-- get ;;;
  a <-- field_loop (S (S (length (rest s)))) len depth (mkacc f0 [] [] reg) ;;;
  ret (mkgb (a_fields a) (a_table a) (a_origin a), a_reg a).

(* Scanner with the GenBank parser: records until only blanks remain (clean)
   or until the first error *)
Fixpoint gb_scan_loop (fuel : nat) (reg : registry) (accu : list genbank) : M (list genbank * bool * registry) :=
  match fuel with
  | O => nofuel
  | S f =>
    e <-- at_end ;;;
    if e then ret (rev accu, true, reg) else
    r <-- try (genbank_parser reg) ;;;
    match r with
    | (Some (g, reg'), _) => gb_scan_loop f reg' (g :: accu)
    | (None, _) => ret (rev accu, false, reg)
    end
  end.

Definition scan_genbank (reg : registry) (input : list byte) : out (list genbank * bool * registry) :=
  fst (gb_scan_loop (S (length input)) reg [] (st_of input)).

(* NewAutoScanner: the first Scan tries GenBank then FASTA, each under a pushed
   frame, and on a double failure reports the error of the parser that got
   further; returns GenBank records, FASTA records, Err() == nil *)
From GTS Require Import Fasta.
Definition auto_scan (reg : registry) (input : list byte)
  : out (list genbank * list (list byte * list byte) * bool) :=
  fst ((e <-- at_end ;;;
        if e then ret ([], [], true) else
        push ;;;
        r <-- try (genbank_parser reg) ;;;
        match r with
        | (Some (g, reg'), _) =>
          drop ;;;
          x <-- gb_scan_loop (S (length input)) reg' [g] ;;;
          ret (fst (fst x), [], snd (fst x))
        | (None, _) =>
          pop ;;; push ;;;
          r2 <-- try fasta_parser ;;;
          match r2 with
          | (Some f, _) =>
            drop ;;;
            x <-- scan_loop (S (length input)) fasta_parser [f] ;;;
            ret ([], fst x, snd x)
          | (None, _) => pop ;;; ret ([], [], false)   (* whichever error got further is reported *)
          end
        end) (st_of input)).
