(* CacheCLI.v — model of the caching protocol of the gts subcommands
   (cmd/gts/io.go TryCache / ioDelegate.Write / Close, main.go): an invocation
   hashes its primary input and its payload (command name, version and the
   option values listed in encodePayload), replays a valid entry or computes,
   tees the output into a new entry and keeps that entry only when the command
   succeeds.  Commands, hashes and outputs are Section variables. *)
From GTS Require Import Base.
Open Scope Z_scope.

Section CacheCLI.
  Variables (Opt Inp Key Outp : Type).
  Variable f : Opt -> Inp -> Outp * bool.      (* the uncached command: output, success *)
  Variable key : Opt -> Key.                   (* the payload handed to TryCache *)
  Variable hin : Inp -> Z.                     (* digest of the primary input *)
  Variable hkey : Key -> Z.                    (* digest of the payload *)

  Definition cache := list ((Z * Z) * Outp).   (* valid (finalised) entries *)

  Fixpoint lookup (c : cache) (k : Z * Z) : option Outp :=
    match c with
    | [] => None
    | ((a, b), o) :: t => if (a =? fst k) && (b =? snd k) then Some o else lookup t k
    end.

  Fixpoint remove (c : cache) (k : Z * Z) : cache :=
    match c with
    | [] => []
    | ((a, b), o) :: t => if (a =? fst k) && (b =? snd k) then remove t k else ((a, b), o) :: remove t k
    end.

  (* one invocation: options, input, whether -o names a file *)
  Definition run_cached (c : cache) (o : Opt) (i : Inp) (tofile : bool) : (Outp * bool) * cache :=
    let k := (hin i, hkey (key o)) in
    match lookup c k with
    | Some out => ((out, true), if tofile then remove c k else c)   (* replayed; exit status 0 *)
    | None =>
      let '(out, ok) := f o i in
      ((out, ok), if ok then (k, out) :: c else c)                  (* entry kept only on success *)
    end.

  Fixpoint run_history (c : cache) (h : list (Opt * Inp * bool)) : list (Outp * bool) * cache :=
    match h with
    | [] => ([], c)
    | (o, i, tf) :: t =>
      let '(r, c') := run_cached c o i tf in
      let '(rs, c'') := run_history c' t in (r :: rs, c'')
    end.
End CacheCLI.

(* ---- the observable the harness can see: how many entries the cache
   directory holds after each invocation; digests are abstract ids *)
Definition entry_counts (h : list (Z * Z * bool * bool)) : list Z :=
  (* (input id, payload id, succeeds, -o file) *)
  let step (acc : list Z * list (Z * Z)) (x : Z * Z * bool * bool) :=
    let '(i, k, ok, tf) := x in
    let '(outs, c) := acc in
    let hit := existsb (fun e => (fst e =? i) && (snd e =? k)) c in
    let c' := if hit then (if tf then filter (fun e => negb ((fst e =? i) && (snd e =? k))) c else c)
              else (if ok then (i, k) :: c else c) in
    (outs ++ [zlen c'], c') in
  fst (fold_left step h ([], [])).
