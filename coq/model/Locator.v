(* Locator.v — model of /repo/locator.go: AsLocator and the locators it
   builds (relative, location, filter, all, resize).  regexp is a parameter as
   in Select.v. *)
From GTS Require Import Base Arith Pars Loc LocParse ModParse Seq Region Select.
Open Scope Z_scope.

Section Locator.
  Variable re_ok : list byte -> bool.
  Variable re_match : list byte -> list byte -> bool.

  (* what AsLocator returns, as a term *)
  Inductive locator :=
  | LRelative (m : modifier)          (* bare modifier: the whole sequence, resized *)
  | LLocation (l : loc)               (* bare point / range / complement: itself *)
  | LFilter (f : filt)                (* selector: the matching features, table order *)
  | LAll                              (* "@M": every feature *)
  | LResize (x : locator) (m : modifier).

  (* strings.IndexByte(s, '@') *)
  Fixpoint split_at (s acc : list byte) : option (list byte * list byte) :=
    match s with
    | [] => None
    | c :: t => if c =? 64 then Some (rev acc, t) else split_at t (c :: acc)
    end.

  (* the '@'-free case *)
  Definition as_locator_plain (s : list byte) : out locator :=
    match as_modifier s with
    | Ok m => Ok (LRelative m)
    | Panic => Panic | OutOfFuel => OutOfFuel
    | Err _ =>
      match try_location s with
      | Ok l => Ok (LLocation l)
      | Panic => Panic | OutOfFuel => OutOfFuel
      | Err _ =>
        match selector re_ok s with
        | Ok f => Ok (LFilter f)
        | Panic => Panic | OutOfFuel => OutOfFuel
        | Err _ => Err EOther
        end
      end
    end.

  Definition as_locator (s : list byte) : out locator :=
    match split_at s [] with
    | None => as_locator_plain s
    | Some ([], m) => m' <- as_modifier m ;; Ok (LResize LAll m')
    | Some (x, m) =>
      (* s[:i] holds no '@': the recursive call takes the plain branch *)
      x' <- as_locator_plain x ;; m' <- as_modifier m ;; Ok (LResize x' m')
    end.

  (* applying a locator to a sequence *)
  Fixpoint locate_with (lc : locator) (s : seq) : out (list region) :=
    match lc with
    | LRelative m => r <- region_resize (Seg 0 (zlen (residues s))) m ;; Ok [r]
    | LLocation l => Ok [loc_region l]
    | LFilter f => Ok (map (fun g => loc_region (floc g)) (feature_filter re_match f (feats s)))
    | LAll => Ok (map (fun g => loc_region (floc g)) (feats s))
    | LResize x m => rr <- locate_with x s ;; omapM (fun r => region_resize r m) rr
    end.

  Definition locate_string (str : list byte) (s : seq) : out (list region) :=
    lc <- as_locator str ;; locate_with lc s.
End Locator.
