(* Region.v — model of /repo/region.go (Segment, Regions, Resize, Minimize,
   InvertLinear/Circular) and of the Modifier.Apply methods of /repo/modifier.go.
   The region type itself lives in Loc.v (Seg / Regs). *)
From GTS Require Import Base Arith Loc.
Open Scope Z_scope.

(* ------------------------------------------------------------ modifiers *)

Inductive modifier :=
| MHead (p : Z)
| MTail (q : Z)
| MHeadTail (p q : Z)
| MHeadHead (p q : Z)
| MTailTail (p q : Z).

(* the forward branch of each Apply *)
Definition apply_fwd (m : modifier) (head tail : Z) : Z * Z :=
  match m with
  | MHead p => (head + p, head + p)
  | MTail q => (tail + q, tail + q)
  | MHeadTail p q => (head + p, go_Max (head + p) (tail + q))
  | MHeadHead p q => (head + p, go_Max (head + p) (head + q))
  | MTailTail p q => (tail + p, go_Max (tail + p) (tail + q))
  end.

(* Apply: a backward region (tail < head) is negated, resized, negated back *)
Definition mod_apply (m : modifier) (head tail : Z) : Z * Z :=
  if tail <? head then
    let '(h, t) := apply_fwd m (- head) (- tail) in (- h, - t)
  else apply_fwd m head tail.

(* ------------------------------------------------------------ regions *)

Fixpoint region_len (r : region) : Z :=
  match r with
  | Seg h t => go_Abs (t - h)
  | Regs rs => fold_right (fun x acc => region_len x + acc) 0 rs
  end.

Definition region_head (r : region) : Z :=
  match r with
  | Seg h _ => h
  | Regs rs => match rs with
               | x :: _ => (fix hd (r : region) : Z :=
                              match r with Seg h _ => h | Regs (y :: _) => hd y | Regs [] => 0 end) x
               | [] => 0
               end
  end.

Fixpoint region_tail (r : region) : Z :=
  match r with
  | Seg _ t => t
  | Regs rs => (fix last (rs : list region) : Z :=
                  match rs with
                  | [] => 0
                  | [x] => region_tail x
                  | _ :: t => last t
                  end) rs
  end.

(* the walk of Regions.Resize:
     for left+1 < len(rr) && rr[left].Len() < lower { lower -= rr[left].Len(); left++ } *)
Fixpoint resize_walk (rs : list region) (k bound : Z) : Z * Z :=
  match rs with
  | [] | [_] => (k, bound)
  | r :: t =>
    let n := region_len r in
    if n <? bound then resize_walk t (k + 1) (bound - n) else (k, bound)
  end.

Definition replace_nth {A} (l : list A) (k : Z) (x : A) : list A :=
  firstn (Z.to_nat k) l ++ [x] ++ skipn (S (Z.to_nat k)) l.

Fixpoint resize (fuel : nat) (r : region) (m : modifier) : out region :=
  match fuel with
  | O => OutOfFuel
  | S f =>
    match r with
    | Seg h t => let '(h', t') := mod_apply m h t in Ok (Seg h' t')
    | Regs rs =>
      let total := region_len r in
      let '(lower, upper) :=
        match m with
        | MHead p => (p, p)
        | MTail q => (q + total, q + total)
        | MHeadHead p q => (p, q)
        | MHeadTail p q => (p, q + total)
        | MTailTail p q => (p + total, q + total)
        end in
      let '(lft, lower) := resize_walk rs 0 lower in
      let '(rgt, upper) := resize_walk rs 0 upper in
      let c := go_Compare lft rgt in
      if c =? 1 then
        x <- index rs lft ;; resize f x (MHead lower)
      else if c =? 0 then
        x <- index rs lft ;; resize f x (MHeadHead lower upper)
      else
        xl <- index rs lft ;;
        xl' <- resize f xl (MHeadTail lower 0) ;;
        let rs1 := replace_nth rs lft xl' in
        xr <- index rs1 rgt ;;
        xr' <- resize f xr (MHeadHead 0 upper) ;;
        let rs2 := replace_nth rs1 rgt xr' in
        sl <- slice rs2 lft (rgt + 1) ;;
        Ok (Regs sl)
    end
  end.

Fixpoint region_depth (r : region) : nat :=
  match r with
  | Seg _ _ => 1%nat
  | Regs rs => S (fold_right (fun x acc => Nat.max (region_depth x) acc) O rs)
  end.

Definition region_resize (r : region) (m : modifier) : out region :=
  resize (S (region_depth r)) r m.

(* ------------------------------------------------------------ Minimize *)

(* flattenRegion: segments normalised to head <= tail *)
Fixpoint flatten_region (r : region) : list (Z * Z) :=
  match r with
  | Seg h t => if t <? h then [(t, h)] else [(h, t)]
  | Regs rs => flat_map flatten_region rs
  end.

(* BySegment.Less on (already normalised or not) segments *)
Definition seg_less (l r : Z * Z) : bool :=
  let '(l0, l1) := if snd l <? fst l then (snd l, fst l) else l in
  let '(r0, r1) := if snd r <? fst r then (snd r, fst r) else r in
  if l0 <? r0 then true
  else if r0 <? l0 then false
  else l1 <? r1.

(* sort.Sort(BySegment(ss)): ties under seg_less are identical values after
   flattening, so every correct sort gives the same list; insertion sort *)
Fixpoint seg_insert (x : Z * Z) (l : list (Z * Z)) : list (Z * Z) :=
  match l with
  | [] => [x]
  | y :: t => if seg_less y x then y :: seg_insert x t else x :: l
  end.
Definition seg_sort (l : list (Z * Z)) : list (Z * Z) := fold_right seg_insert [] l.

(* the merge loop of Minimize, on the sorted list *)
Fixpoint merge_sorted (fuel : nat) (l : list (Z * Z)) : list (Z * Z) :=
  match fuel with
  | O => l
  | S f =>
    match l with
    | a :: b :: t =>
      if snd a <? fst b then a :: merge_sorted f (b :: t)
      else merge_sorted f ((go_Min (fst a) (fst b), go_Max (snd a) (snd b)) :: t)
    | _ => l
    end
  end.

Definition minimize (r : region) : list (Z * Z) :=
  let ss := seg_sort (flatten_region r) in
  merge_sorted (length ss) ss.

(* invertSegments *)
Fixpoint invert_segments (ss : list (Z * Z)) (start n : Z) : list (Z * Z) :=
  match ss with
  | [] => if negb (start =? n) then [(start, n)] else []
  | s :: t =>
    (if negb (start =? fst s) then [(start, fst s)] else []) ++ invert_segments t (snd s) n
  end.

Definition invert_linear (r : region) (n : Z) : list region :=
  map (fun s => Seg (fst s) (snd s)) (invert_segments (minimize r) 0 n).

Definition invert_circular (r : region) (n : Z) : out (list region) :=
  let ss := minimize r in
  let rr := invert_linear r n in
  match ss with
  | [] => Ok rr (* len(ss) == 0: nothing selected, nothing to merge across the origin *)
  | s0 :: _ =>
    if (fst s0 =? 0) || (snd (last ss s0) =? n) then Ok rr
    else
      match rr with
      | [] => Panic (* rr[len(rr)-1] *)
      | r0 :: rest =>
        (* rr[0] = Regions{rr[last], rr[0]}; return rr[:len(rr)-1] *)
        let rl := last rr r0 in
        Ok (removelast (Regs [rl; r0] :: rest))
      end
  end.
