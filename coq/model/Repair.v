(* Repair.v — model of gts.Repair (/repo/feature.go) after the fix that merges
   fragments as units (mergeFragments).  Grouping is by the PRINTED string
   fmt.Sprintf("%s:%v", key, props), reproduced here, so classes that print the
   same collide exactly as in the code.  sort.Sort on <= 12 locations is the
   stable insertion sort of the Go library (larger groups are outside the
   modelled domain). *)
From GTS Require Import Base Arith Loc Seq.
Open Scope Z_scope.

(* fmt "%v" of [][]string: [[a b] [c]] *)
Definition show_strings (l : list (list byte)) : list byte := [91] ++ sep_by [32] l ++ [93].
Definition show_props (ps : props) : list byte := [91] ++ sep_by [32] (map show_strings ps) ++ [93].
Definition class_key (f : feature) : list byte := fkey f ++ [58] ++ show_props (fprops f).

(* map[string][]int in order of first appearance (iteration order of the Go
   map is irrelevant: groups are disjoint and `keep` is sorted afterwards) *)
Fixpoint add_index (groups : list (list byte * list nat)) (k : list byte) (i : nat)
  : list (list byte * list nat) :=
  match groups with
  | [] => [(k, [i])]
  | (k', is) :: t => if bytes_eqb k' k then (k', is ++ [i]) :: t else (k', is) :: add_index t k i
  end.

Fixpoint group_indices (ff : list feature) (i : nat) (acc : list (list byte * list nat))
  : list (list byte * list nat) :=
  match ff with
  | [] => acc
  | f :: t => group_indices t (S i) (add_index acc (class_key f) i)
  end.

(* insertionSort of package sort: data[i] moves left while Less(data[j], data[j-1]);
   [racc] is the sorted prefix in reverse *)
Fixpoint ins_right (x : loc) (racc : list loc) : list loc :=
  match racc with
  | [] => [x]
  | y :: t => if loc_less x y then y :: ins_right x t else x :: racc
  end.
Definition loc_isort (l : list loc) : list loc := rev (fold_left (fun acc x => ins_right x acc) l []).

(* fragmentParts *)
Definition fragment_parts (l : loc) : list loc * bool :=
  match l with
  | Joined ls => (ls, false)
  | Ordered ls => (ls, true)
  | _ => ([l], false)
  end.

(* the non-complemented case of mergeFragments on the part lists *)
Definition mk_multi (parts : list loc) (ord : bool) : loc :=
  match parts with
  | [x] => x
  | _ => if ord then Ordered parts else Joined parts
  end.

Definition merge_flat (pa pb : list loc) (ord force : bool) : option loc :=
  match split_last pa, pb with
  | Some (init, Ranged ls le l5 l3), Ranged rs re r5 r3 :: tl =>
    if negb (le =? rs) then None
    else if negb force && negb (l3 && r5) then None
    else Some (mk_multi (init ++ [Ranged ls re l5 r3] ++ tl) ord)
  | _, _ => None
  end.

(* mergeFragments(a, b, force) *)
Fixpoint merge_fragments (a b : loc) (force : bool) : option loc :=
  match a, b with
  | Complemented x, Complemented y =>
    match merge_fragments x y force with
    | Some m => Some (Complemented m)
    | None => None
    end
  | Complemented _, _ => None
  | _, Complemented _ => None
  | _, _ =>
    let '(pa, orda) := fragment_parts a in
    let '(pb, ordb) := fragment_parts b in
    merge_flat pa pb (orda || ordb) force
  end.

Fixpoint merge_all (locs : list loc) (racc : list loc) (force : bool) : list loc :=
  (* racc: merged so far, reversed *)
  match locs with
  | [] => rev racc
  | l :: t =>
    match racc with
    | last :: rt =>
      match merge_fragments last l force with
      | Some m => merge_all t (m :: rt) force
      | None => merge_all t (l :: racc) force
      end
    | [] => merge_all t [l] force
    end
  end.

Definition nth_feat (ff : list feature) (i : nat) : feature :=
  nth i ff (mkfeat [] (Between 0) []).

Fixpoint set_nth {A} (l : list A) (i : nat) (x : A) : list A :=
  match l, i with
  | [], _ => []
  | _ :: t, O => x :: t
  | y :: t, S k => y :: set_nth t k x
  end.

Fixpoint assign_locs (gg : list feature) (indices : list nat) (locs : list loc) : list feature :=
  match indices, locs with
  | i :: it, l :: lt => assign_locs (set_nth gg i (set_loc (nth_feat gg i) l)) it lt
  | _, _ => gg
  end.

(* one group: returns the updated table and the indices kept *)
Definition repair_group (ff gg : list feature) (indices : list nat) : list feature * list nat :=
  match indices with
  | [] => (gg, [])
  | i0 :: _ =>
    let locs := loc_isort (map (fun i => floc (nth_feat gg i)) indices) in
    let force := is_source (nth_feat ff i0) in
    let merged := merge_all locs [] force in
    let gg' := if Nat.ltb (length merged) (length indices) then assign_locs gg indices merged else gg in
    (gg', firstn (length merged) indices)
  end.

Fixpoint nat_insert (x : nat) (l : list nat) : list nat :=
  match l with
  | [] => [x]
  | y :: t => if Nat.leb x y then x :: l else y :: nat_insert x t
  end.
Definition nat_sort (l : list nat) : list nat := fold_right nat_insert [] l.

Definition repair (ff : list feature) : list feature :=
  let groups := group_indices ff O [] in
  let '(gg, keep) :=
    fold_left (fun '(gg, keep) '(_, indices) =>
                 let '(gg', k) := repair_group ff gg indices in (gg', keep ++ k))
              groups (ff, []) in
  map (nth_feat gg) (nat_sort keep).
