(* Insdc.v — model of /repo/seqio/insdc.go: qualifier kinds and the registry of
   qualifier names (learned on first sight), QualifierParser, the feature
   table parser INSDCTableParser and the formatter INSDCFormatter. *)
From GTS Require Import Base Arith Tables Pars Loc LocParse Seq.
Open Scope Z_scope.

(* the three sorted name lists; binary search on a sorted list = membership *)
Record registry := mkreg { rq : list (list byte); rl : list (list byte); rt : list (list byte) }.
Definition default_registry : registry :=
  mkreg QuotedQualifierNames LiteralQualifierNames ToggleQualifierNames.

Definition mem (n : list byte) (l : list (list byte)) : bool := existsb (bytes_eqb n) l.

(* 0 quoted, 1 literal, 2 toggle, 3 unknown *)
Definition qualifier_type (r : registry) (n : list byte) : Z :=
  if mem n (rq r) then 0 else if mem n (rl r) then 1 else if mem n (rt r) then 2 else 3.

(* ---------- writer *)

(* QualifierIO.String *)
Definition qualifier_show (r : registry) (name value : list byte) : list byte :=
  let t := qualifier_type r name in
  if t =? 1 then [47] ++ name ++ [61] ++ value
  else if t =? 2 then [47] ++ name
  else [47] ++ name ++ [61; 34] ++ value ++ [34].

(* strings.Replace(s, "\n", "\n"+prefix, -1) *)
Definition add_prefix (s prefix : list byte) : list byte :=
  flat_map (fun c => if c =? 10 then 10 :: prefix else [c]) s.

(* Props.Keys / Props.Get: the values of the FIRST entry carrying the name *)
Fixpoint props_first (ps : props) (name : list byte) : list (list byte) :=
  match ps with
  | [] => []
  | (k :: vs) :: t => if bytes_eqb k name then vs else props_first t name
  | [] :: t => props_first t name
  end.

Definition feature_show (r : registry) (pre : list byte) (depth : Z) (f : feature) : list byte :=
  let len := zlen pre + zlen (fkey f) in
  let qprefix := pre ++ repeat_byte 32 (depth - zlen pre) in
  pre ++ fkey f ++ repeat_byte 32 (depth - len) ++ show (floc f) ++
  flat_map (fun p =>
              match p with
              | name :: _ =>
                flat_map (fun v => [10] ++ qprefix ++ add_prefix (qualifier_show r name v) qprefix)
                         (props_first (fprops f) name)
              | [] => []
              end) (fprops f).

(* INSDCFormatter.String: features separated by newlines.  strings.Repeat with
   a negative count panics (key wider than the location column) *)
Definition table_show (r : registry) (pre : list byte) (depth : Z) (ff : list feature) : out (list byte) :=
  if existsb (fun f => depth - (zlen pre + zlen (fkey f)) <? 0) ff then Panic
  else Ok (sep_by [10] (map (feature_show r pre depth) ff)).

(* ---------- reader *)

(* qualifierNameParser(prefix) *)
Definition qualifier_name_parser (prefix : list byte) : M (list byte) :=
  let p := prefix ++ [47] in
  request (zlen p) ;;;
  b <-- buffer ;;;
  if negb (bytes_eqb b p) then fail EOther else
  advance ;;; pWord is_snake.

(* token with every "\n"+prefix replaced by "\n", leftmost first, rescanning *)
Fixpoint index_of_sub (fuel : nat) (p s : list byte) (i : nat) : option nat :=
  match fuel with
  | O => None
  | S f =>
    if is_prefix p s then Some i
    else match s with [] => None | _ :: t => index_of_sub f p t (S i) end
  end.

Fixpoint strip_prefixes (fuel : nat) (p token : list byte) : list byte :=
  match fuel with
  | O => token
  | S f =>
    match index_of_sub (S (length token)) p token 0 with
    | None => token
    | Some i => strip_prefixes f p (firstn (S i) token ++ skipn (i + length p) token)
    end
  end.

(* quotedQualifierParser(prefix) *)
Definition quoted_qualifier_parser (prefix : list byte) : M (list byte) :=
  push ;;;
  r <-- try next ;;;
  match r with
  | (None, k) => pop ;;; fail k
  | (Some c, _) =>
    if negb (c =? 61) then pop ;;; fail EOther else
    advance ;;;
    q <-- try (pQuoted 34) ;;;
    match q with
    | (None, k) => pop ;;; fail k
    | (Some token, _) =>
      drop ;;;
      _ <-- try pEOL ;;;
      match prefix with
      | [] => ret (strip_prefixes (S (length token)) [10] token) (* p = "\n": replaced by itself; loops at most |token| times *)
      | _ => ret (strip_prefixes (S (length token)) (10 :: prefix) token)
      end
    end
  end.

(* literalQualifierValueParser(prefix) *)
Fixpoint literal_lines (fuel : nat) (prefix : list byte) (p : list byte) : M (list byte) :=
  match fuel with
  | O => nofuel
  | S f =>
    r <-- try (pBytes prefix) ;;;
    match r with
    | (None, _) => drop ;;; ret p
    | (Some _, _) =>
      n <-- try next ;;;
      match n with
      | (None, _) => pop ;;; ret p       (* the error is ignored by the caller *)
      | (Some c, _) =>
        if c =? 47 then pop ;;; ret p
        else
          l <-- pLine ;;;
          drop ;;; push ;;;
          literal_lines f prefix (p ++ [10] ++ l)
      end
    end
  end.

Definition literal_value_parser (prefix : list byte) : M (list byte) :=
  p <-- pLine ;;;
  push ;;;
  s <-- get ;;;
  literal_lines (S (length (rest s))) prefix p.

Definition literal_qualifier_parser (prefix : list byte) : M (list byte) :=
  push ;;;
  r <-- try next ;;;
  match r with
  | (None, k) => pop ;;; fail k
  | (Some c, _) =>
    if negb (c =? 61) then pop ;;; fail EOther else
    advance ;;;
    v <-- literal_value_parser prefix ;;;
    drop ;;; ret v
  end.

Definition register (r : registry) (t : Z) (n : list byte) : registry :=
  if t =? 0 then mkreg (n :: rq r) (rl r) (rt r)
  else if t =? 1 then mkreg (rq r) (n :: rl r) (rt r)
  else mkreg (rq r) (rl r) (n :: rt r).

(* QualifierParser(prefix): returns (name, value) and the updated registry *)
Definition qualifier_parser (prefix : list byte) (reg : registry) : M ((list byte * list byte) * registry) :=
  name <-- qualifier_name_parser prefix ;;;
  let t := qualifier_type reg name in
  if t =? 3 then
    q <-- try (quoted_qualifier_parser prefix) ;;;
    match q with
    | (Some v, _) => ret ((name, v), register reg 0 name)
    | (None, _) =>
      l <-- try (literal_qualifier_parser prefix) ;;;
      match l with
      | (Some v, _) => ret ((name, v), register reg 1 name)
      | (None, _) =>
        e <-- try pEOL ;;;
        match e with
        | (Some v, _) => ret ((name, v), register reg 2 name)
        | (None, _) => ret ((name, name), reg)    (* result.Token still holds the name *)
        end
      end
    end
  else
    v <-- (if t =? 0 then quoted_qualifier_parser prefix
           else if t =? 1 then literal_qualifier_parser prefix
           else pEOL) ;;;
    ret ((name, v), reg).

(* pars.Many(qualifierParser) threading the registry *)
Fixpoint qualifiers_loop (fuel : nat) (prefix : list byte) (reg : registry) (start : Z)
         (acc : list (list byte * list byte)) : M (list (list byte * list byte) * registry) :=
  match fuel with
  | O => nofuel
  | S f =>
    r <-- try (qualifier_parser prefix reg) ;;;
    match r with
    | (None, _) => ret (rev acc, reg)
    | (Some (q, reg'), _) =>
      pos <-- position ;;;
      if pos =? start then ret ([], reg')
      else qualifiers_loop f prefix reg' start (q :: acc)
    end
  end.

Definition qualifiers_parser (prefix : list byte) (reg : registry) : M (list (list byte * list byte) * registry) :=
  s <-- get ;;; qualifiers_loop (S (length (rest s))) prefix reg (apos s) [].

(* props.Add(name, value) for each qualifier in order *)
Fixpoint props_add (ps : props) (name value : list byte) : props :=
  match ps with
  | [] => [[name; value]]
  | (k :: vs) :: t => if bytes_eqb k name then (k :: vs ++ [value]) :: t else (k :: vs) :: props_add t name value
  | [] :: t => [] :: props_add t name value
  end.
Definition props_of (qs : list (list byte * list byte)) : props :=
  fold_left (fun ps q => props_add ps (fst q) (snd q)) qs [].

(* the recursive location parser with fuel from the remaining input *)
Definition parse_loc : M loc := s <-- get ;;; parse_location (S (length (rest s))).

(* isFeatureKeyByte *)
Definition is_featkey (c : byte) : bool := is_snake c || (c =? 45) || (c =? 39) || (c =? 42).

(* featureKeylineParser(prefix, depth) *)
Fixpoint indent_loop (n : nat) : M unit :=
  match n with
  | O => ret tt
  | S k => c <-- next ;;; if negb (c =? 32) then fail EOther else advance ;;; indent_loop k
  end.

Definition keyline_parser (prefix : list byte) (depth : Z) : M (list byte * loc) :=
  request (zlen prefix) ;;;
  b <-- buffer ;;;
  if negb (bytes_eqb b prefix) then fail EOther else
  advance ;;;
  key <-- pWord is_featkey ;;;
  indent_loop (Z.to_nat (depth - (zlen prefix + zlen key))) ;;;
  l <-- parse_loc ;;;
  _ <-- pEOL ;;;
  ret (key, l).

Fixpoint features_loop (fuel : nat) (kprefix : list byte) (depth : Z) (qprefix : list byte)
         (reg : registry) (acc : list feature) : M (list feature * registry) :=
  match fuel with
  | O => nofuel
  | S f =>
    r <-- try (keyline_parser kprefix depth) ;;;
    match r with
    | (None, _) => ret (rev acc, reg)
    | (Some (key, l), _) =>
      qr <-- qualifiers_parser qprefix reg ;;;
      let '(qs, reg') := qr in
      features_loop f kprefix depth qprefix reg' (mkfeat key l (props_of qs) :: acc)
    end
  end.

(* INSDCTableParser(prefix) *)
Definition table_parser (prefix : list byte) (reg : registry) : M (list feature * registry) :=
  first <-- pMap
    (push ;;;
     a <-- try (pBytes prefix) ;;;
     match a with
     | (None, k) => pop ;;; fail k
     | (Some _, _) =>
       sp1 <-- pSpaces ;;;
       k <-- try (pWord is_featkey) ;;;
       match k with
       | (None, e) => pop ;;; fail e
       | (Some key, _) =>
         sp2 <-- pSpaces ;;;
         l <-- try parse_loc ;;;
         match l with
         | (None, e) => pop ;;; fail e
         | (Some lc, _) =>
           e <-- try pEOL ;;;
           match e with
           | (None, e') => pop ;;; fail e'
           | (Some _, _) => drop ;;; ret (zlen sp1, key, zlen sp2, lc)
           end
         end
       end
     end) (fun x => Ok x) ;;;
  let '(pre, key, pst, lc) := first in
  let depth := pre + zlen key + pst in
  let kprefix := prefix ++ repeat_byte 32 pre in
  let qprefix := prefix ++ repeat_byte 32 depth in
  qr <-- qualifiers_parser qprefix reg ;;;
  let '(qs, reg') := qr in
  s <-- get ;;;
  features_loop (S (length (rest s))) kprefix depth qprefix reg' [mkfeat key lc (props_of qs)].
