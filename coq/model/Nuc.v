(* Nuc.v — model of /repo/nucleotide.go (Complement/Transcribe bytes, Match) and
   of Search (sequence.go), plus the IUPAC base-set semantics used as the
   SPECIFICATION (hand-written from the IUPAC nucleotide code definition).
   The alphabets and the Match switch come from the REGENERATED gen/Tables.v. *)
From GTS Require Import Base Arith Tables Loc Seq.
Open Scope Z_scope.

(* ---------- IUPAC specification: base sets as bit masks A=1 C=2 G=4 T/U=8 *)

Definition ascii_lower (c : byte) : byte := if (65 <=? c) && (c <=? 90) then c + 32 else c.
Definition ascii_is_upper (c : byte) : bool := (65 <=? c) && (c <=? 90).

Definition iupac_lower_mask (c : byte) : option Z :=
  if c =? 97 then Some 1        (* a *)
  else if c =? 99 then Some 2   (* c *)
  else if c =? 103 then Some 4  (* g *)
  else if c =? 116 then Some 8  (* t *)
  else if c =? 117 then Some 8  (* u *)
  else if c =? 114 then Some 5  (* r = a|g *)
  else if c =? 121 then Some 10 (* y = c|t *)
  else if c =? 107 then Some 12 (* k = g|t *)
  else if c =? 109 then Some 3  (* m = a|c *)
  else if c =? 115 then Some 6  (* s = c|g *)
  else if c =? 119 then Some 9  (* w = a|t *)
  else if c =? 98 then Some 14  (* b = c|g|t *)
  else if c =? 100 then Some 13 (* d = a|g|t *)
  else if c =? 104 then Some 11 (* h = a|c|t *)
  else if c =? 118 then Some 7  (* v = a|c|g *)
  else if c =? 110 then Some 15 (* n *)
  else None.

Definition iupac_mask (c : byte) : option Z := iupac_lower_mask (ascii_lower c).

(* complementary base set: A<->T, C<->G *)
Definition compl_mask (m : Z) : Z :=
  (if Z.testbit m 0 then 8 else 0) + (if Z.testbit m 1 then 4 else 0) +
  (if Z.testbit m 2 then 2 else 0) + (if Z.testbit m 3 then 1 else 0).

Definition mask_subset (a b : Z) : bool := Z.land a b =? a.

(* ---------- Complement / Transcribe on one byte (replaceBytes) *)

Definition complement_byte (c : byte) : out byte := replace_byte complement_from complement_to c.
Definition transcribe_byte (c : byte) : out byte := replace_byte transcribe_from transcribe_to c.
Definition complement_bytes (p : list byte) : out (list byte) := replace_bytes p complement_from complement_to.
Definition transcribe_bytes (p : list byte) : out (list byte) := replace_bytes p transcribe_from transcribe_to.

(* ---------- Match *)

(* bytes.ToLower on ASCII input *)
Definition to_lower (p : list byte) : list byte := map ascii_lower p.

(* one pattern position: what the regexp fragment written for a query byte
   accepts.  "[...]" = one of the listed bytes, "." = any byte but '\n',
   quoted literal = that byte *)
Inductive cls := CSet (l : list byte) | CAny | CLit (c : byte) | CUnsupported.

Fixpoint find_row (rows : list (list byte * list byte)) (c : byte) : option (list byte) :=
  match rows with
  | [] => None
  | (keys, frag) :: t => if existsb (Z.eqb c) keys then Some frag else find_row t c
  end.

Definition is_regexp_meta (c : byte) : bool :=
  existsb (Z.eqb c) [92; 46; 43; 42; 63; 40; 41; 124; 91; 93; 123; 125; 94; 36].

Definition cls_of (c : byte) : cls :=
  match find_row match_rows c with
  | Some frag =>
    match frag with
    | [46] => CAny
    | 91 :: rest =>
      match rev rest with
      | 93 :: inner => CSet (rev inner)
      | _ => CUnsupported
      end
    | _ => CUnsupported
    end
  | None =>
    if match_default_quoted then CLit c
    else if is_regexp_meta c then CUnsupported else CLit c
  end.

Definition cls_accepts (k : cls) (x : byte) : bool :=
  match k with
  | CSet l => existsb (Z.eqb x) l
  | CAny => negb (x =? 10)
  | CLit c => x =? c
  | CUnsupported => false
  end.

Fixpoint matches_here (cs : list cls) (s : list byte) : bool :=
  match cs, s with
  | [], _ => true
  | c :: ct, x :: st => cls_accepts c x && matches_here ct st
  | _ :: _, [] => false
  end.

(* FindAllIndex for a fixed-width pattern: leftmost, non-overlapping *)
Fixpoint scan (fuel : nat) (cs : list cls) (m : nat) (s : list byte) (pos : Z) : list (Z * Z) :=
  match fuel with
  | O => []
  | S f =>
    match s with
    | [] => []
    | _ :: t =>
      if matches_here cs s then (pos, pos + Z.of_nat m) :: scan f cs m (skipn m s) (pos + Z.of_nat m)
      else scan f cs m t (pos + 1)
    end
  end.

Definition is_unsupported (k : cls) : bool := match k with CUnsupported => true | _ => false end.

Definition match_segments (s q : list byte) : out (list (Z * Z)) :=
  match s, q with
  | [], _ | _, [] => Ok []
  | _, _ =>
    let cs := map cls_of (if match_lowers_query then to_lower q else q) in
    if existsb is_unsupported cs then Panic (* regexp.MustCompile on raw syntax *)
    else Ok (scan (S (length s)) cs (length q) (if match_lowers_seq then to_lower s else s) 0)
  end.

(* ---------- Search: every (overlapping) occurrence, ascending *)

Fixpoint occurrences (fuel : nat) (q : list byte) (m : Z) (s : list byte) (pos : Z) : list (Z * Z) :=
  match fuel with
  | O => []
  | S f =>
    match s with
    | [] => []
    | _ :: t =>
      (if is_prefix q s then [(pos, pos + m)] else []) ++ occurrences f q m t (pos + 1)
    end
  end.

Definition search_segments (s q : list byte) : list (Z * Z) :=
  match s, q with
  | [], _ | _, [] => []
  | _, _ => occurrences (length s) (to_lower q) (zlen q) (to_lower s) 0
  end.
