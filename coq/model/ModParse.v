(* ModParse.v — model of the Modifier printers (Head/Tail/HeadTail/HeadHead/
   TailTail .String) and of the modifier parsers of /repo/modifier.go
   (parseHead, parseTail, parseHeadTail, parseHeadHead, parseTailTail,
   parseModifier, AsModifier) on the pars model. *)
From GTS Require Import Base Arith Pars Loc Region.
Open Scope Z_scope.

(* fmt "%+d" *)
Definition signed (p : Z) : list byte :=
  if p <? 0 then 45 :: itoa (- p) else 43 :: itoa p.

(* Head(p).String(): "^" or "^%+d"; Tail(q).String(): "$" or "$%+d" *)
Definition head_show (p : Z) : list byte := if p =? 0 then [94] else 94 :: signed p.
Definition tail_show (q : Z) : list byte := if q =? 0 then [36] else 36 :: signed q.

Definition s_dots : list byte := [46; 46].

Definition mod_show (m : modifier) : list byte :=
  match m with
  | MHead p => head_show p
  | MTail q => tail_show q
  | MHeadTail p q => head_show p ++ s_dots ++ tail_show q
  | MHeadHead p q => head_show p ++ s_dots ++ head_show q
  | MTailTail p q => tail_show p ++ s_dots ++ tail_show q
  end.

(* pars.Any(pars.Seq(c, pars.Int).Child(1), pars.Byte(c).Bind(0)).Map(...) *)
Definition parse_anchor (c : byte) : M Z :=
  pMap (pAny [pMap (pSeq2 (pByte c) pInt) (fun x => Ok (snd x));
              (_ <-- pByte c ;;; ret 0)])
       (fun n => Ok n).

Definition parse_head : M Z := parse_anchor 94.
Definition parse_tail : M Z := parse_anchor 36.

Definition parse_head_tail : M modifier :=
  pMap (pSeq3 parse_head (pBytes s_dots) parse_tail) (fun '(p, _, q) => Ok (MHeadTail p q)).
Definition parse_head_head : M modifier :=
  pMap (pSeq3 parse_head (pBytes s_dots) parse_head) (fun '(p, _, q) => Ok (MHeadHead p q)).
Definition parse_tail_tail : M modifier :=
  pMap (pSeq3 parse_tail (pBytes s_dots) parse_tail) (fun '(p, _, q) => Ok (MTailTail p q)).

Definition parse_modifier : M modifier :=
  pAny [parse_head_tail; parse_head_head; parse_tail_tail;
        (p <-- parse_head ;;; ret (MHead p));
        (q <-- parse_tail ;;; ret (MTail q))].

(* AsModifier(s) = pars.Exact(parseModifier).Parse(pars.FromString(s)) *)
Definition as_modifier (s : list byte) : out modifier := run (pExact parse_modifier) s.
