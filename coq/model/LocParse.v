(* LocParse.v — model of the location parsers of /repo/location.go
   (parseBetween, parsePoint, parseRange, parseAmbiguous, parseComplement,
   parseJoin, parseOrder, multipleLocationParser, locationDelimiter,
   ParseLocation, AsLocation) and of tryLocation (locator.go), statement by
   statement on the pars model: the missing Pops of the Go code are missing
   here as well. *)
From GTS Require Import Base Arith Pars Loc.
Open Scope Z_scope.

Definition str (s : list byte) := s.
Definition s_dotdot : list byte := [46; 46].
Definition s_join : list byte := [106; 111; 105; 110; 40].
Definition s_order : list byte := [111; 114; 100; 101; 114; 40].
Definition s_complement : list byte := [99; 111; 109; 112; 108; 101; 109; 101; 110; 116; 40].

Definition parse_between : M loc :=
  push ;;;
  r <-- try pInt ;;;
  match r with
  | (None, k) => pop ;;; fail k
  | (Some start, _) =>
    r <-- try next ;;;
    match r with
    | (None, k) => pop ;;; fail k
    | (Some c, _) =>
      if negb (c =? 94) then pop ;;; fail EOther else
      advance ;;;
      r <-- try pInt ;;;
      match r with
      | (None, k) => pop ;;; fail k
      | (Some end_, _) =>
        if negb (start + 1 =? end_) then fail EOther (* no Pop: the push leaks *)
        else drop ;;; ret (Between start)
      end
    end
  end.

Definition parse_point : M loc := pMap pInt (fun n => Ok (Point (n - 1))).

Definition parse_range : M loc :=
  push ;;;
  r <-- try next ;;;
  match r with
  | (None, k) => pop ;;; fail k
  | (Some c, _) =>
    p5 <-- (if c =? 60 then advance ;;; ret true else ret false) ;;;
    r <-- try pInt ;;;
    match r with
    | (None, k) => pop ;;; fail k
    | (Some n, _) =>
      let start := n - 1 in
      r <-- try (request 2) ;;;
      match r with
      | (None, k) => pop ;;; fail k
      | (Some _, _) =>
        b <-- buffer ;;;
        if negb (bytes_eqb b s_dotdot) then pop ;;; fail EOther else
        advance ;;;
        r <-- try next ;;;
        match r with
        | (None, k) => fail k (* no Pop: the push leaks *)
        | (Some c, _) =>
          p3 <-- (if c =? 62 then advance ;;; ret true else ret false) ;;;
          r <-- try pInt ;;;
          match r with
          | (None, k) => pop ;;; fail k
          | (Some end_, _) =>
            (* legacy entries: the partial marker after the end coordinate *)
            r <-- try next ;;;
            p3 <-- (match r with
                    | (Some 62, _) => advance ;;; ret true
                    | _ => ret p3
                    end) ;;;
            drop ;;; ret (Ranged start end_ p5 p3)
          end
        end
      end
    end
  end.

Definition parse_ambiguous : M loc :=
  push ;;;
  r <-- try pInt ;;;
  match r with
  | (None, k) => pop ;;; fail k
  | (Some n, _) =>
    r <-- try next ;;;
    match r with
    | (None, k) => pop ;;; fail k
    | (Some c, _) =>
      if negb (c =? 46) then pop ;;; fail EOther else
      advance ;;;
      r <-- try pInt ;;;
      match r with
      | (None, k) => pop ;;; fail k
      | (Some end_, _) => drop ;;; ret (Ambiguous (n - 1) end_)
      end
    end
  end.

(* locationDelimiter: ',' followed by any white space *)
Definition location_delimiter : M bool :=
  push ;;;
  r <-- try next ;;;
  match r with
  | (None, _) => pop ;;; ret false
  | (Some c, _) =>
    if negb (c =? 44) then pop ;;; ret false else
    advance ;;;
    _ <-- try next ;;;
    advance_while is_space ;;;
    drop ;;; ret true
  end.

Section Rec.
  Variable parse_location : M loc.   (* the recursive reference &ParseLocation *)

  Fixpoint multi_loop (fuel : nat) (acc : list loc) : M (list loc) :=
    match fuel with
    | O => nofuel
    | S f =>
      d <-- location_delimiter ;;;
      if d then
        r <-- try parse_location ;;;
        match r with
        | (None, k) => pop ;;; fail k
        | (Some l, _) => multi_loop f (l :: acc)
        end
      else drop ;;; ret (rev acc)
    end.

  Definition multiple_location_parser : M (list loc) :=
    push ;;;
    r <-- try parse_location ;;;
    match r with
    | (None, k) => pop ;;; fail k
    | (Some l, _) =>
      s <-- get ;;;
      multi_loop (S (length (rest s))) [l]
    end.

  Definition parse_wrapped (prefix : list byte) (finish : list loc -> out loc) : M loc :=
    push ;;;
    r <-- try (request (zlen prefix)) ;;;
    match r with
    | (None, k) => pop ;;; fail k
    | (Some _, _) =>
      b <-- buffer ;;;
      if negb (bytes_eqb b prefix) then pop ;;; fail EOther else
      advance ;;;
      r <-- try multiple_location_parser ;;;
      match r with
      | (None, k) => fail k (* no Pop: the push leaks *)
      | (Some locs, _) =>
        r <-- try next ;;;
        match r with
        | (None, k) => pop ;;; fail k
        | (Some c, _) =>
          if negb (c =? 41) then pop ;;; fail EOther else
          advance ;;;
          l <-- lift (finish locs) ;;;
          drop ;;; ret l
        end
      end
    end.

  Definition parse_join : M loc := parse_wrapped s_join join.
  Definition parse_order : M loc := parse_wrapped s_order order.

  Definition parse_complement (inner : M loc) : M loc :=
    push ;;;
    r <-- try (request 11) ;;;
    match r with
    | (None, k) => pop ;;; fail k
    | (Some _, _) =>
      b <-- buffer ;;;
      if negb (bytes_eqb b s_complement) then pop ;;; fail EOther else
      advance ;;;
      r <-- try inner ;;;
      match r with
      | (None, k) => pop ;;; fail k
      | (Some l, _) =>
        r <-- try next ;;;
        match r with
        | (None, k) => pop ;;; fail k
        | (Some c, _) =>
          if negb (c =? 41) then pop ;;; fail EOther else
          advance ;;; drop ;;; ret (complement l)
        end
      end
    end.

  (* ParseLocation = pars.Any(range, between, ambiguous, complement, join, order, point) *)
  Definition parse_location_body : M loc :=
    pAny [parse_range; parse_between; parse_ambiguous; parse_complement parse_location;
          parse_join; parse_order; parse_point].
End Rec.

Fixpoint parse_location (fuel : nat) : M loc :=
  match fuel with
  | O => nofuel
  | S f => parse_location_body (parse_location f)
  end.

(* AsLocation(s): the parser is NOT anchored at the end of the string *)
Definition as_location (s : list byte) : out loc :=
  run (parse_location (S (length s))) s.

(* tryLocation (locator.go): Exact(Any(complement(self), range, point)) *)
Fixpoint try_location_parser (fuel : nat) : M loc :=
  match fuel with
  | O => nofuel
  | S f => pAny [parse_complement (try_location_parser f); parse_range; parse_point]
  end.
Definition try_location (s : list byte) : out loc :=
  run (pExact (try_location_parser (S (length s)))) s.
