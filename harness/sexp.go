package main

import (
	"fmt"
	"strings"

	"github.com/go-gts/gts"
)

// ---- s-expressions (the case-line syntax shared with the OCaml driver)

type sx struct {
	atom string
	list []*sx
	isL  bool
}

func parseSx(s string) []*sx {
	pos := 0
	var one func() *sx
	skip := func() {
		for pos < len(s) && (s[pos] == ' ' || s[pos] == '\t') {
			pos++
		}
	}
	one = func() *sx {
		skip()
		if s[pos] == '(' {
			pos++
			x := &sx{isL: true}
			for {
				skip()
				if pos >= len(s) {
					panic("unclosed paren")
				}
				if s[pos] == ')' {
					pos++
					return x
				}
				x.list = append(x.list, one())
			}
		}
		st := pos
		for pos < len(s) && s[pos] != ' ' && s[pos] != '\t' && s[pos] != '(' && s[pos] != ')' {
			pos++
		}
		return &sx{atom: s[st:pos]}
	}
	var out []*sx
	for {
		skip()
		if pos >= len(s) {
			return out
		}
		out = append(out, one())
	}
}

func (x *sx) String() string {
	if !x.isL {
		return x.atom
	}
	parts := make([]string, len(x.list))
	for i, e := range x.list {
		parts[i] = e.String()
	}
	return "(" + strings.Join(parts, " ") + ")"
}

// splitArgs splits a case line into its top-level s-expressions.
func splitArgs(line string) []string {
	xs := parseSx(line)
	out := make([]string, len(xs))
	for i, x := range xs {
		out[i] = x.String()
	}
	return out
}

// ---- locations

func locSx(l gts.Location) string {
	switch v := l.(type) {
	case nil:
		return "NIL"
	case gts.Between:
		return fmt.Sprintf("(B %d)", int(v))
	case gts.Point:
		return fmt.Sprintf("(P %d)", int(v))
	case gts.Ranged:
		return fmt.Sprintf("(R %d %d %s %s)", v.Start, v.End, b2s(v.Partial.Partial5), b2s(v.Partial.Partial3))
	case gts.Ambiguous:
		return fmt.Sprintf("(A %d %d)", v.Start, v.End)
	case gts.Joined:
		parts := []string{"J"}
		for _, e := range v {
			parts = append(parts, locSx(e))
		}
		return "(" + strings.Join(parts, " ") + ")"
	case gts.Ordered:
		parts := []string{"O"}
		for _, e := range v {
			parts = append(parts, locSx(e))
		}
		return "(" + strings.Join(parts, " ") + ")"
	case gts.Complemented:
		return "(C " + locSx(v.Location) + ")"
	}
	return fmt.Sprintf("(UNKNOWN %T)", l)
}

func sxLoc(x *sx) gts.Location {
	if !x.isL || len(x.list) == 0 {
		panic("loc expected: " + x.String())
	}
	a := x.list
	switch a[0].atom {
	case "B":
		return gts.Between(atoi(a[1].atom))
	case "P":
		return gts.Point(atoi(a[1].atom))
	case "R":
		return gts.Ranged{Start: atoi(a[1].atom), End: atoi(a[2].atom), Partial: gts.Partial{Partial5: a[3].atom == "1", Partial3: a[4].atom == "1"}}
	case "A":
		return gts.Ambiguous{Start: atoi(a[1].atom), End: atoi(a[2].atom)}
	case "J":
		j := make(gts.Joined, len(a)-1)
		for i, e := range a[1:] {
			j[i] = sxLoc(e)
		}
		return j
	case "O":
		j := make(gts.Ordered, len(a)-1)
		for i, e := range a[1:] {
			j[i] = sxLoc(e)
		}
		return j
	case "C":
		return gts.Complemented{Location: sxLoc(a[1])}
	}
	panic("loc expected: " + x.String())
}

func parseLoc(s string) gts.Location { return sxLoc(parseSx(s)[0]) }

func parseLocList(s string) []gts.Location {
	x := parseSx(s)[0]
	out := make([]gts.Location, len(x.list))
	for i, e := range x.list {
		out[i] = sxLoc(e)
	}
	return out
}

func locListSx(ls []gts.Location) string {
	parts := make([]string, len(ls))
	for i, l := range ls {
		parts[i] = locSx(l)
	}
	return "(" + strings.Join(parts, " ") + ")"
}

// ---- regions

func regionSx(r gts.Region) string {
	switch v := r.(type) {
	case gts.Segment:
		return fmt.Sprintf("(G %d %d)", v[0], v[1])
	case gts.Regions:
		parts := []string{"GG"}
		for _, e := range v {
			parts = append(parts, regionSx(e))
		}
		return "(" + strings.Join(parts, " ") + ")"
	}
	return fmt.Sprintf("(UNKNOWN %T)", r)
}

func sxRegion(x *sx) gts.Region {
	a := x.list
	switch a[0].atom {
	case "G":
		return gts.Segment{atoi(a[1].atom), atoi(a[2].atom)}
	case "GG":
		rr := make(gts.Regions, len(a)-1)
		for i, e := range a[1:] {
			rr[i] = sxRegion(e)
		}
		return rr
	}
	panic("region expected")
}

// ---- features and sequences

func featSx(f gts.Feature) string {
	var ps []string
	for _, p := range f.Props {
		vs := make([]string, len(p))
		for i, v := range p {
			vs[i] = hx([]byte(v))
		}
		ps = append(ps, "("+strings.Join(vs, " ")+")")
	}
	return fmt.Sprintf("(F %s %s (%s))", hx([]byte(f.Key)), locSx(f.Loc), strings.Join(ps, " "))
}

func sxFeat(x *sx) gts.Feature {
	a := x.list
	props := gts.Props{}
	for _, p := range a[3].list {
		vs := make([]string, len(p.list))
		for i, v := range p.list {
			vs[i] = string(unhx(v.atom))
		}
		props = append(props, vs)
	}
	return gts.Feature{Key: string(unhx(a[1].atom)), Loc: sxLoc(a[2]), Props: props}
}

func featsSx(ff []gts.Feature) string {
	parts := make([]string, len(ff))
	for i, f := range ff {
		parts[i] = featSx(f)
	}
	return "(" + strings.Join(parts, " ") + ")"
}

func seqSx(s gts.Sequence) string {
	return fmt.Sprintf("(S %s %s)", featsSx(s.Features()), hx(s.Bytes()))
}

func sxSeq(x *sx) gts.Sequence {
	a := x.list
	var ff gts.FeatureSlice
	for _, f := range a[1].list {
		ff = append(ff, sxFeat(f))
	}
	return gts.New(nil, ff, unhx(a[2].atom))
}

func parseSeq(s string) gts.Sequence { return sxSeq(parseSx(s)[0]) }

// ---- denotation, computed by a walker that does not use Region/Locate

type dpos struct {
	p int
	c bool
}

func den(l gts.Location) []dpos {
	switch v := l.(type) {
	case gts.Between:
		return nil
	case gts.Point:
		return []dpos{{int(v), false}}
	case gts.Ranged:
		var out []dpos
		for x := v.Start; x < v.End; x++ {
			out = append(out, dpos{x, false})
		}
		return out
	case gts.Ambiguous:
		var out []dpos
		for x := v.Start; x < v.End; x++ {
			out = append(out, dpos{x, false})
		}
		return out
	case gts.Joined:
		var out []dpos
		for _, e := range v {
			out = append(out, den(e)...)
		}
		return out
	case gts.Ordered:
		var out []dpos
		for _, e := range v {
			out = append(out, den(e)...)
		}
		return out
	case gts.Complemented:
		in := den(v.Location)
		out := make([]dpos, len(in))
		for i, d := range in {
			out[len(in)-1-i] = dpos{d.p, !d.c}
		}
		return out
	}
	panic(fmt.Sprintf("den: unexpected %T", l))
}

func denSx(d []dpos) string {
	parts := make([]string, len(d))
	for i, x := range d {
		s := "+"
		if x.c {
			s = "-"
		}
		parts[i] = fmt.Sprintf("%d%s", x.p, s)
	}
	return "(" + strings.Join(parts, " ") + ")"
}

// dedupAdj removes adjacent duplicates: what Join's "drop duplicates" may
// legally change.
func dedupAdj(d []dpos) []dpos {
	var out []dpos
	for i, x := range d {
		if i > 0 && d[i-1] == x {
			continue
		}
		out = append(out, x)
	}
	return out
}

func denEq(a, b []dpos) bool {
	if len(a) != len(b) {
		return false
	}
	for i := range a {
		if a[i] != b[i] {
			return false
		}
	}
	return true
}

// outer partial markers in reading direction
func firstPart(l gts.Location) gts.Location {
	switch v := l.(type) {
	case gts.Joined:
		if len(v) == 0 {
			return nil
		}
		return firstPart(v[0])
	case gts.Ordered:
		if len(v) == 0 {
			return nil
		}
		return firstPart(v[0])
	case gts.Complemented:
		return lastPart(v.Location)
	}
	return l
}

func lastPart(l gts.Location) gts.Location {
	switch v := l.(type) {
	case gts.Joined:
		if len(v) == 0 {
			return nil
		}
		return lastPart(v[len(v)-1])
	case gts.Ordered:
		if len(v) == 0 {
			return nil
		}
		return lastPart(v[len(v)-1])
	case gts.Complemented:
		return firstPart(v.Location)
	}
	return l
}

// partial5/partial3 of the whole location in reading direction: on the
// forward strand the 5' end is Partial5 of the first part; under complement the
// reading direction flips, so the 5' end is Partial3 of the (textually) last part.
func outerPartials(l gts.Location) (p5, p3 bool) {
	return endPartial(l, true, false), endPartial(l, false, false)
}

// endPartial: want5 = the 5' end in reading direction; flipped = inside an odd
// number of complements.
func endPartial(l gts.Location, want5, flipped bool) bool {
	switch v := l.(type) {
	case gts.Complemented:
		return endPartial(v.Location, want5, !flipped)
	case gts.Joined:
		return endPartialList([]gts.Location(v), want5, flipped)
	case gts.Ordered:
		return endPartialList([]gts.Location(v), want5, flipped)
	case gts.Ranged:
		// textual start carries Partial5, textual end carries Partial3
		if want5 != flipped {
			return v.Partial.Partial5
		}
		return v.Partial.Partial3
	}
	return false
}

func endPartialList(ls []gts.Location, want5, flipped bool) bool {
	if len(ls) == 0 {
		return false
	}
	if want5 != flipped {
		return endPartial(ls[0], want5, flipped)
	}
	return endPartial(ls[len(ls)-1], want5, flipped)
}
