package main

import (
	"github.com/go-gts/gts"
)

// implementation evaluators for the location / sequence operators of the
// case-line syntax (mirrors driver/main.ml)
func init() {
	ops["loc_shift"] = func(a []string) string {
		return "ok " + locSx(parseLoc(a[0]).Shift(atoi(a[1]), atoi(a[2])))
	}
	ops["loc_expand"] = func(a []string) string {
		return "ok " + locSx(parseLoc(a[0]).Expand(atoi(a[1]), atoi(a[2])))
	}
	ops["loc_reverse"] = func(a []string) string { return "ok " + locSx(parseLoc(a[0]).Reverse(atoi(a[1]))) }
	ops["loc_normalize"] = func(a []string) string { return "ok " + locSx(parseLoc(a[0]).Normalize(atoi(a[1]))) }
	ops["loc_join"] = func(a []string) string { return "ok " + locSx(gts.Join(parseLocList(a[0])...)) }
	ops["loc_order"] = func(a []string) string { return "ok " + locSx(gts.Order(parseLocList(a[0])...)) }
	ops["loc_complement"] = func(a []string) string { return "ok " + locSx(parseLoc(a[0]).Complement()) }
	ops["loc_show"] = func(a []string) string { return "ok " + hx([]byte(parseLoc(a[0]).String())) }
	ops["loc_len"] = func(a []string) string { return "ok " + itoa(parseLoc(a[0]).Len()) }
	ops["loc_less"] = func(a []string) string { return "ok " + b2s(gts.LocationLess(parseLoc(a[0]), parseLoc(a[1]))) }
	ops["loc_within"] = func(a []string) string {
		return "ok " + b2s(gts.LocationWithin(parseLoc(a[0]), atoi(a[1]), atoi(a[2])))
	}
	ops["loc_overlap"] = func(a []string) string {
		return "ok " + b2s(gts.LocationOverlap(parseLoc(a[0]), atoi(a[1]), atoi(a[2])))
	}
	ops["loc_region"] = func(a []string) string { return "ok " + regionSx(parseLoc(a[0]).Region()) }
	ops["loc_strand"] = func(a []string) string {
		switch gts.CheckStrand(parseLoc(a[0])) {
		case gts.StrandForward:
			return "ok 1"
		case gts.StrandReverse:
			return "ok 2"
		}
		return "ok 0"
	}
	// the harness's own denotation walker against the model's den: keeps the
	// two definitions of "denotes" in agreement
	ops["loc_den"] = func(a []string) string { return "ok " + denSx(den(parseLoc(a[0]))) }
	ops["loc_ascomplete"] = func(a []string) string { return "ok " + locSx(gts.VerifAsComplete(parseLoc(a[0]))) }
	ops["fs_insert"] = func(a []string) string {
		var ff gts.FeatureSlice
		for _, f := range parseSx(a[0])[0].list {
			ff = append(ff, sxFeat(f))
		}
		return "ok " + featsSx(ff.Insert(sxFeat(parseSx(a[1])[0])))
	}
	ops["seq_insert"] = func(a []string) string {
		return "ok " + seqSx(gts.Insert(parseSeq(a[0]), atoi(a[1]), parseSeq(a[2])))
	}
	ops["seq_embed"] = func(a []string) string {
		return "ok " + seqSx(gts.Embed(parseSeq(a[0]), atoi(a[1]), parseSeq(a[2])))
	}
	ops["seq_delete"] = func(a []string) string {
		return "ok " + seqSx(gts.Delete(parseSeq(a[0]), atoi(a[1]), atoi(a[2])))
	}
	ops["seq_erase"] = func(a []string) string {
		return "ok " + seqSx(gts.Erase(parseSeq(a[0]), atoi(a[1]), atoi(a[2])))
	}
	ops["seq_slice"] = func(a []string) string {
		return "ok " + seqSx(gts.Slice(parseSeq(a[0]), atoi(a[1]), atoi(a[2])))
	}
	ops["seq_rotate"] = func(a []string) string { return "ok " + seqSx(gts.Rotate(parseSeq(a[0]), atoi(a[1]))) }
	ops["seq_reverse"] = func(a []string) string { return "ok " + seqSx(gts.Reverse(parseSeq(a[0]))) }
	ops["seq_complement"] = func(a []string) string { return "ok " + seqSx(gts.Complement(parseSeq(a[0]))) }
	ops["seq_transcribe"] = func(a []string) string { return "ok " + seqSx(gts.Transcribe(parseSeq(a[0]))) }
	ops["seq_concat"] = func(a []string) string {
		var ss []gts.Sequence
		for _, s := range parseSx(a[0])[0].list {
			ss = append(ss, sxSeq(s))
		}
		return "ok " + seqSx(gts.Concat(ss...))
	}
	ops["seq_locate"] = func(a []string) string {
		return "ok " + seqSx(sxRegion(parseSx(a[0])[0]).Locate(parseSeq(a[1])))
	}
}

// ---- shape families (DESIGN.md §4.2): every contiguous kind and partial
// combination with coordinates in [0,maxc], joins and orders of 1..3 parts
// from a pool, complements, nesting <= 2.

func contiguous(maxc int) []gts.Location {
	var out []gts.Location
	for p := 0; p <= maxc; p++ {
		out = append(out, gts.Between(p))
	}
	for p := 0; p < maxc; p++ {
		out = append(out, gts.Point(p))
	}
	parts := []gts.Partial{gts.Complete, gts.Partial5, gts.Partial3, gts.PartialBoth}
	for s := 0; s < maxc; s++ {
		for e := s + 1; e <= maxc; e++ {
			for _, pt := range parts {
				out = append(out, gts.Ranged{Start: s, End: e, Partial: pt})
			}
			out = append(out, gts.Ambiguous{Start: s, End: e})
		}
	}
	return out
}

// pool of parts for multi-part locations: abutting, overlapping, gapped,
// single-base and zero-length parts all occur among its pairs
func pool(maxc int) []gts.Location {
	m := maxc
	if m < 7 {
		m = 7
	}
	return []gts.Location{
		gts.Range(0, 2), gts.Range(2, 4), gts.PartialRange(1, 3, gts.Partial3), gts.PartialRange(3, 5, gts.Partial5),
		gts.PartialRange(4, m, gts.PartialBoth), gts.Range(m-2, m), gts.Point(2), gts.Point(4), gts.Point(m - 1),
		gts.Between(2), gts.Between(4), gts.Ambiguous{Start: 1, End: 4},
		gts.Complemented{Location: gts.Range(2, 4)}, gts.Complemented{Location: gts.PartialRange(4, 6, gts.Partial5)},
		gts.Complemented{Location: gts.Point(3)},
	}
}

// multi builds joins/orders through the constructors (the values the API
// produces), optionally raw (struct literals, unreduced).
func multi(maxc int, triples bool) []gts.Location {
	pl := pool(maxc)
	var out []gts.Location
	add := func(parts ...gts.Location) {
		out = append(out, gts.Join(parts...), gts.Order(parts...))
		out = append(out, gts.Complemented{Location: gts.Join(parts...)}, gts.Complemented{Location: gts.Order(parts...)})
	}
	for _, a := range pl {
		for _, b := range pl {
			add(a, b)
		}
	}
	if triples {
		sub := pl[:9]
		for _, a := range sub {
			for _, b := range sub {
				for _, c := range sub {
					add(a, b, c)
				}
			}
		}
	}
	// nesting 2
	out = append(out,
		gts.Join(gts.Order(gts.Range(0, 2), gts.Point(3)), gts.Range(5, 7)),
		gts.Order(gts.Join(gts.Range(0, 2), gts.Range(3, 5)), gts.Complemented{Location: gts.Join(gts.Range(5, 6), gts.Range(7, 8))}),
		gts.Join(gts.Complemented{Location: gts.Range(5, 7)}, gts.Complemented{Location: gts.Range(1, 3)}, gts.Range(7, 8)),
		gts.Complemented{Location: gts.Order(gts.Join(gts.PartialRange(0, 2, gts.Partial5), gts.Range(3, 4)), gts.Point(6))},
	)
	// three parts that are not in ascending order: the middle part lies outside
	// the span of the first and the last (always present, also without triples)
	m := maxc
	if m < 7 {
		m = 7
	}
	for _, ps := range [][]gts.Location{
		{gts.Range(0, 1), gts.Range(m-2, m), gts.Range(2, 3)},
		{gts.Range(2, 3), gts.Range(m-2, m-1), gts.Range(0, 1)},
		{gts.PartialRange(m-3, m-2, gts.Partial5), gts.Range(0, 2), gts.PartialRange(m-1, m, gts.Partial3)},
		{gts.Point(1), gts.Range(m-2, m), gts.Point(3)},
	} {
		add(ps...)
	}
	return out
}

func dedupLocs(ls []gts.Location) []gts.Location {
	seen := map[string]bool{}
	var out []gts.Location
	for _, l := range ls {
		k := locSx(l)
		if !seen[k] {
			seen[k] = true
			out = append(out, l)
		}
	}
	return out
}

func family(maxc int, triples bool) []gts.Location {
	c := contiguous(maxc)
	var out []gts.Location
	out = append(out, c...)
	for _, l := range c {
		out = append(out, gts.Complemented{Location: l})
	}
	out = append(out, multi(maxc, triples)...)
	return dedupLocs(out)
}

func isMulti(l gts.Location) bool {
	switch v := l.(type) {
	case gts.Joined, gts.Ordered:
		return true
	case gts.Complemented:
		return isMulti(v.Location)
	}
	return false
}

// random structured location, nesting <= depth
func randLoc(o *Out, maxc, depth int) gts.Location {
	r := o.Rng
	k := r.Intn(10)
	if depth == 0 && k >= 6 {
		k = r.Intn(6)
	}
	switch {
	case k == 0:
		return gts.Between(r.Intn(maxc + 1))
	case k == 1:
		return gts.Point(r.Intn(maxc))
	case k <= 4:
		s := r.Intn(maxc)
		e := s + 1 + r.Intn(maxc-s)
		return gts.Ranged{Start: s, End: e, Partial: gts.Partial{Partial5: r.Intn(3) == 0, Partial3: r.Intn(3) == 0}}
	case k == 5:
		s := r.Intn(maxc)
		e := s + 1 + r.Intn(maxc-s)
		return gts.Ambiguous{Start: s, End: e}
	case k == 6:
		return gts.Complemented{Location: randLoc(o, maxc, depth-1)}
	default:
		n := 1 + r.Intn(4)
		parts := make([]gts.Location, n)
		for i := range parts {
			parts[i] = randLoc(o, maxc, depth-1)
		}
		if k == 9 {
			return gts.Order(parts...)
		}
		return gts.Join(parts...)
	}
}

func letters(n int) []byte {
	p := make([]byte, n)
	for i := range p {
		p[i] = "abcdefghijklmnopqrstuvwxyz0123456789"[i%36]
	}
	return p
}

func mkFeat(key string, l gts.Location) gts.Feature {
	return gts.Feature{Key: key, Loc: l, Props: gts.Props{{"note", "n"}}}
}
