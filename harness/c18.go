package main

import (
	"bytes"
	"fmt"
	"sort"

	"github.com/go-gts/gts"
)

func init() {
	props["C18"] = runC18
	ops["complement_bytes"] = func(a []string) string {
		return "ok " + hx(gts.Complement(gts.New(nil, nil, unhx(a[0]))).Bytes())
	}
	ops["transcribe_bytes"] = func(a []string) string {
		return "ok " + hx(gts.Transcribe(gts.New(nil, nil, unhx(a[0]))).Bytes())
	}
	ops["match"] = func(a []string) string {
		return "ok " + segsSx(gts.Match(gts.New(nil, nil, unhx(a[0])), gts.New(nil, nil, unhx(a[1]))))
	}
	ops["search"] = func(a []string) string {
		return "ok " + segsSx(gts.Search(gts.New(nil, nil, unhx(a[0])), gts.New(nil, nil, unhx(a[1]))))
	}
}

// IUPAC nucleotide codes, written independently of nucleotide.go
var iupacSets = map[byte]string{
	'a': "a", 'c': "c", 'g': "g", 't': "t", 'u': "t",
	'r': "ag", 'y': "ct", 'k': "gt", 'm': "ac", 's': "cg", 'w': "at",
	'b': "cgt", 'd': "agt", 'h': "act", 'v': "acg", 'n': "acgt",
}

func lowerASCII(c byte) byte {
	if 'A' <= c && c <= 'Z' {
		return c + 32
	}
	return c
}

func baseSet(c byte) (string, bool) {
	s, ok := iupacSets[lowerASCII(c)]
	return s, ok
}

func complSet(s string) string {
	out := []byte{}
	for _, b := range []byte("acgt") {
		// b is in the complement set iff its partner is in s
		partner := map[byte]byte{'a': 't', 't': 'a', 'c': 'g', 'g': 'c'}[b]
		if bytes.IndexByte([]byte(s), partner) >= 0 {
			out = append(out, b)
		}
	}
	return string(out)
}

func subset(a, b string) bool {
	for _, c := range []byte(a) {
		if bytes.IndexByte([]byte(b), c) < 0 {
			return false
		}
	}
	return true
}

// specAccepts: does query byte q (as Match should treat it) accept sequence byte s
func specAccepts(q, s byte) bool {
	q, s = lowerASCII(q), lowerASCII(s)
	qs, qok := baseSet(q)
	if !qok {
		return q == s // literal
	}
	ss, sok := baseSet(s)
	if !sok {
		// non-letters have no base set: only 'n' (any) may accept them
		return q == 'n' && s != '\n'
	}
	return subset(ss, qs)
}

// sizes far beyond the small sweeps: very long runs in a query, sequences of
// several MiB with hits at and around multiples of 2^20 (implementation only)
func runC18Large(o *Out) {
	safe := func(name string, f func() []gts.Segment) ([]gts.Segment, bool) {
		var out []gts.Segment
		ok := true
		func() {
			defer func() {
				if r := recover(); r != nil {
					ok = false
					o.Violate("panic", name, fmt.Sprint(r))
				}
			}()
			out = f()
		}()
		return out, ok
	}
	// queries with runs of 999..2500 identical letters
	for _, run := range []int{999, 1000, 1001, 1002, 1500, 2500} {
		for _, c := range []byte{'a', 'n', 'r'} {
			q := bytes.Repeat([]byte{c}, run)
			q = append(append([]byte("gt"), q...), 'c')
			seq := append(append([]byte("ttgt"), bytes.Repeat([]byte{'a'}, run)...), []byte("cgg")...)
			name := fmt.Sprintf("Match with a run of %d x %q", run, c)
			segs, ok := safe(name, func() []gts.Segment { return gts.Match(gts.New(nil, nil, seq), gts.New(nil, nil, q)) })
			if ok && (len(segs) != 1 || segs[0][0] != 2 || segs[0][1] != 2+len(q)) {
				o.Violate("match-long-run", name, fmt.Sprintf("%v", segs))
			}
		}
	}
	// exact search in 9 MiB: every occurrence once -- those that start exactly at
	// a multiple of 2^20 (first placement) and those that lie across one or end
	// at one (second placement)
	n := 9<<20 + 4321
	pat := []byte("ggtcgg")
	for pass, deltas := range [][]int{{0, 40}, {-3, -40, 9}, {-6, 7}} {
		seq := make([]byte, n)
		for i := range seq {
			seq[i] = "ac"[i%2]
		}
		offs := []int{100, n - 6}
		for mark := 1 << 20; mark <= 9<<20; mark += 1 << 20 {
			for _, d := range deltas {
				offs = append(offs, mark+d)
			}
		}
		for _, off := range offs {
			copy(seq[off:], pat)
		}
		var want []int
		for i := 0; i+len(pat) <= n; {
			j := bytes.Index(seq[i:], pat)
			if j < 0 {
				break
			}
			want = append(want, i+j)
			i += j + 1
		}
		name := fmt.Sprintf("Search in 9 MiB, placement %d", pass)
		segs, ok := safe(name, func() []gts.Segment { return gts.Search(gts.New(nil, nil, seq), gts.New(nil, nil, pat)) })
		if ok {
			var got []int
			for _, sg := range segs {
				got = append(got, sg[0])
			}
			sort.Ints(got)
			if len(want) != len(offs) || fmt.Sprint(got) != fmt.Sprint(want) {
				o.Violate("search-large", name+", hits at and around multiples of 2^20", fmt.Sprintf("got %d hits %v want %d %v", len(got), got, len(want), want))
			}
		}
	}
}

func runC18(o *Out) {
	runC18Large(o)
	// all 256 byte values through Complement / Transcribe (the model covers ASCII;
	// bytes >= 128 are compared too: replaceBytes is byte-wise)
	all := make([]byte, 256)
	for i := range all {
		all[i] = byte(i)
	}
	o.Run("complement-all-bytes", true, "complement_bytes", hx(all))
	o.Run("transcribe-all-bytes", true, "transcribe_bytes", hx(all))
	comp := gts.Complement(gts.New(nil, nil, all)).Bytes()
	tran := gts.Transcribe(gts.New(nil, nil, all)).Bytes()
	if len(comp) != 256 || len(tran) != 256 {
		o.Violate("length-changed", "complement_bytes "+hx(all), "")
		return
	}
	for i := 0; i < 256; i++ {
		b, c := byte(i), comp[i]
		o.Run("complement-byte", true, "complement_bytes", hx([]byte{b}))
		line := "complement_bytes " + hx([]byte{b})
		if set, ok := baseSet(b); ok {
			cs, ok2 := baseSet(c)
			if !ok2 || cs != complSet(set) || (('A' <= b && b <= 'Z') != ('A' <= c && c <= 'Z')) {
				o.Violate("complement-not-complementary", line, fmt.Sprintf("%q -> %q", b, c))
			}
		} else if c != b {
			o.Violate("complement-changes-other-byte", line, fmt.Sprintf("%q -> %q", b, c))
		}
		// involution up to U -> A -> T
		cc := gts.Complement(gts.New(nil, nil, []byte{c})).Bytes()[0]
		want := b
		if b == 'U' {
			want = 'T'
		}
		if b == 'u' {
			want = 't'
		}
		if cc != want {
			o.Violate("complement-not-involution", line, fmt.Sprintf("%q -> %q -> %q", b, c, cc))
		}
		// transcribe differs only in writing U for the complement of A
		wt := c
		if c == 'T' {
			wt = 'U'
		}
		if c == 't' {
			wt = 'u'
		}
		if tran[i] != wt {
			o.Violate("transcribe", "transcribe_bytes "+hx([]byte{b}), fmt.Sprintf("%q -> %q want %q", b, tran[i], wt))
		}
	}
	// match table: every query letter x sequence letter, both cases, plus literals
	letters := []byte("acgturykmswbdhvnACGTURYKMSWBDHVN")
	others := []byte("x-*.(z5 ")
	for _, q := range append(append([]byte{}, letters...), others...) {
		for _, s := range append(append([]byte{}, letters...), others...) {
			res := o.Run("match-table", true, "match", hx([]byte{s}), hx([]byte{q}))
			line := join("match", hx([]byte{s}), hx([]byte{q}))
			if res == "panic" {
				o.Violate("match-panics", line, "")
				continue
			}
			got := len(gts.Match(gts.New(nil, nil, []byte{s}), gts.New(nil, nil, []byte{q}))) == 1
			if got != specAccepts(q, s) {
				if lowerASCII(q) == 'k' && (lowerASCII(s) == 'y' || lowerASCII(s) == 'k') {
					o.KnownFinding("K3")
				} else {
					o.Violate("match-table", line, fmt.Sprintf("query %q sequence %q: matched=%v, IUPAC says %v", q, s, got, specAccepts(q, s)))
				}
			}
		}
	}
	// exhaustive small sequences and queries over a small alphabet
	alpha := []byte("acgtnk(*")
	maxS := 4
	if o.Tier == "thorough" {
		maxS = 6
	}
	var seqs [][]byte
	var gen func(cur []byte, n int)
	gen = func(cur []byte, n int) {
		if len(cur) > 0 {
			seqs = append(seqs, append([]byte(nil), cur...))
		}
		if len(cur) == n {
			return
		}
		for _, c := range alpha {
			gen(append(cur, c), n)
		}
	}
	gen(nil, maxS)
	var queries [][]byte
	var genq func(cur []byte, n int)
	genq = func(cur []byte, n int) {
		if len(cur) > 0 {
			queries = append(queries, append([]byte(nil), cur...))
		}
		if len(cur) == n {
			return
		}
		for _, c := range []byte("acgnk(*T") {
			genq(append(cur, c), n)
		}
	}
	genq(nil, 2)
	cnt := 0
	for _, s := range seqs {
		for _, q := range queries {
			cnt++
			if o.Tier != "thorough" && len(s) == maxS && cnt%3 != int(o.Seed%3) {
				continue
			}
			checkMatch(o, s, q)
			checkSearch(o, s, q)
		}
	}
	// random longer ones, both cases
	nr := 2000
	if o.Tier == "thorough" {
		nr = 100000
	}
	for k := 0; k < nr; k++ {
		s := make([]byte, 1+o.Rng.Intn(40))
		for i := range s {
			const sa = "acgtACGTnNrykmswbdhvu\n-"
			s[i] = sa[o.Rng.Intn(len(sa))]
		}
		q := make([]byte, 1+o.Rng.Intn(4))
		for i := range q {
			const qa = "acgtnNRYKMswbdhv.-"
			q[i] = qa[o.Rng.Intn(len(qa))]
		}
		checkMatch(o, s, q)
		checkSearch(o, s, q)
	}
}

func checkMatch(o *Out, s, q []byte) {
	res := o.Run("match", true, "match", hx(s), hx(q))
	line := join("match", hx(s), hx(q))
	if res == "panic" {
		o.Violate("match-panics", line, fmt.Sprintf("sequence %q query %q", s, q))
		return
	}
	segs := gts.Match(gts.New(nil, nil, s), gts.New(nil, nil, q))
	hasK := false
	for _, c := range q {
		if lowerASCII(c) == 'k' {
			hasK = true
		}
	}
	matchesAt := func(i int) bool {
		if i+len(q) > len(s) {
			return false
		}
		for j := range q {
			if !specAccepts(q[j], s[i+j]) {
				return false
			}
		}
		return true
	}
	prevEnd := 0
	for _, g := range segs {
		if g[1]-g[0] != len(q) || g[0] < prevEnd || !matchesAt(g[0]) {
			if hasK {
				o.KnownFinding("K3")
				return
			}
			o.Violate("match-unsound", line, fmt.Sprintf("sequence %q query %q: reported %v", s, q, g))
			return
		}
		prevEnd = g[1]
	}
	for i := 0; i+len(q) <= len(s); i++ {
		if !matchesAt(i) {
			continue
		}
		coveredBy := false
		for _, g := range segs {
			if g[0] <= i && i < g[1] {
				coveredBy = true
			}
		}
		if !coveredBy {
			if hasK {
				o.KnownFinding("K3")
				return
			}
			o.Violate("match-incomplete", line, fmt.Sprintf("sequence %q query %q: match at %d not reported nor overlapped (%v)", s, q, i, segs))
			return
		}
	}
}

func checkSearch(o *Out, s, q []byte) {
	o.Run("search", true, "search", hx(s), hx(q))
	line := join("search", hx(s), hx(q))
	segs := gts.Search(gts.New(nil, nil, s), gts.New(nil, nil, q))
	ls, lq := bytes.ToLower(s), bytes.ToLower(q)
	var want []gts.Segment
	for i := 0; i+len(lq) <= len(ls); i++ {
		if bytes.Equal(ls[i:i+len(lq)], lq) {
			want = append(want, gts.Segment{i, i + len(lq)})
		}
	}
	if len(segs) != len(want) {
		o.Violate("search-set", line, fmt.Sprintf("sequence %q query %q: got %v want %v", s, q, segs, want))
		return
	}
	for i := range want {
		if segs[i] != want[i] {
			o.Violate("search-set", line, fmt.Sprintf("sequence %q query %q: got %v want %v", s, q, segs, want))
			return
		}
	}
}
