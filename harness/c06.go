package main

import (
	"fmt"
	"strings"

	"github.com/go-gts/gts"
)

func init() {
	props["C06"] = runC06
	ops["as_location"] = func(a []string) string {
		l, err := gts.AsLocation(string(unhx(a[0])))
		if err != nil {
			return "err"
		}
		return "ok " + locSx(l)
	}
	ops["try_location"] = func(a []string) string {
		l, ok := gts.VerifTryLocation(string(unhx(a[0])))
		if !ok {
			return "err"
		}
		return "ok " + locSx(l)
	}
}

var locSymbols = []string{"0", "1", "2", "9", ".", "^", "<", ">", ",", ")", "-", "join(", "order(", "complement("}

func runC06(o *Out) {
	maxSyms := 4
	if o.Tier == "thorough" {
		maxSyms = 5
	}
	// every string of up to maxSyms symbols over the location alphabet
	var rec func(cur string, n int)
	cnt := 0
	rec = func(cur string, n int) {
		if n > 0 {
			cnt++
			res := o.Run("alphabet-string", n > 1, "as_location", hx([]byte(cur)))
			if strings.HasPrefix(res, "ok ") {
				checkParsePrintFix(o, cur)
			} else if res == "panic" {
				o.Violate("panic", "as_location "+hx([]byte(cur)), cur)
			}
			if cnt%7 == 0 {
				o.Run("alphabet-string-trylocation", true, "try_location", hx([]byte(cur)))
			}
		}
		if n == maxSyms {
			return
		}
		for _, s := range locSymbols {
			rec(cur+s, n+1)
		}
	}
	rec("", 0)
	// printed forms of the shape family and of random derivations
	fam := family(8, true)
	for _, l := range fam {
		checkPrintParse(o, l)
	}
	nr := 3000
	if o.Tier == "thorough" {
		nr = 100000
	}
	for k := 0; k < nr; k++ {
		l := randLoc(o, 300, 3)
		checkPrintParse(o, l)
		// mutated valid strings
		s := []byte(l.String())
		if len(s) > 0 {
			i := o.Rng.Intn(len(s))
			switch o.Rng.Intn(3) {
			case 0:
				s = append(s[:i], s[i+1:]...)
			case 1:
				s[i] = "0123456789.^<>,()-jc "[o.Rng.Intn(21)]
			default:
				s = append(s[:i], append([]byte{",<>.^) "[o.Rng.Intn(7)]}, s[i:]...)...)
			}
			res := o.Run("mutated", true, "as_location", hx(s))
			if strings.HasPrefix(res, "ok ") {
				checkParsePrintFix(o, string(s))
			}
		}
		// legacy trailing '>' spelling
		if r, ok := l.(gts.Ranged); ok && r.Partial.Partial3 {
			legacy := fmt.Sprintf("%d..%d>", r.Start+1, r.End)
			if r.Partial.Partial5 {
				legacy = "<" + legacy
			}
			res := o.Run("legacy", true, "as_location", hx([]byte(legacy)))
			if res != "ok "+locSx(r) {
				o.Violate("legacy-spelling", "as_location "+hx([]byte(legacy)), res)
			}
		}
	}
	// join reduction never changes the denoted bases
	pl := pool(8)
	pl = append(pl, gts.Range(4, 6), gts.Point(6), gts.Between(6), gts.PartialRange(6, 8, gts.Partial5), gts.Range(2, 4),
		gts.Join(gts.Range(0, 1), gts.Range(2, 3)), gts.Order(gts.Point(1), gts.Point(5)),
		// complemented multi-part locations as parts (folded with a neighbouring complemented part)
		gts.Complemented{Location: gts.Join(gts.Range(0, 2), gts.Range(4, 5))}, gts.Complemented{Location: gts.Join(gts.Range(4, 6), gts.Range(0, 1), gts.Point(2))},
		gts.Complemented{Location: gts.Order(gts.Range(0, 2), gts.Point(5))})
	cj := 0
	for _, a := range pl {
		for _, b := range pl {
			checkJoin(o, []gts.Location{a, b})
			for _, c := range pl {
				cj++
				if o.Tier != "thorough" && cj%5 != int(o.Seed%5) {
					continue
				}
				checkJoin(o, []gts.Location{a, b, c})
			}
		}
	}
}

// a location value prints, parses back to a value that prints identically and
// denotes the same stranded residues with the same partial markers
func checkPrintParse(o *Out, l gts.Location) {
	if doubleComplement(l) {
		return // not constructible through Location.Complement()
	}
	s := l.String()
	line := "as_location " + hx([]byte(s))
	res := o.Run("printed", true, "as_location", hx([]byte(s)))
	o.Run("show", true, "loc_show", locSx(l))
	if !strings.HasPrefix(res, "ok ") {
		o.Violate("printed-form-rejected", line, s)
		return
	}
	back, _ := gts.AsLocation(s)
	if back.String() != s {
		o.Violate("print-parse-print", line, fmt.Sprintf("%q reparsed prints %q", s, back.String()))
		return
	}
	if !denEq(den(back), den(l)) {
		o.Violate("print-parse-denotation", line, fmt.Sprintf("%q: %s vs %s", s, denSx(den(back)), denSx(den(l))))
	}
	a5, a3 := outerPartials(l)
	b5, b3 := outerPartials(back)
	if a5 != b5 || a3 != b3 {
		o.Violate("print-parse-partials", line, s)
	}
}

// for every accepted string, printing the result is a fixed point of parse-then-print
func checkParsePrintFix(o *Out, s string) {
	l, err := gts.AsLocation(s)
	if err != nil {
		return
	}
	line := "as_location " + hx([]byte(s))
	p1, ok := safeStr(func() string { return l.String() })
	if !ok {
		o.Violate("panic", line, "String() of the parsed value panics")
		return
	}
	l2, err := gts.AsLocation(p1)
	if err != nil {
		o.Violate("fixpoint-rejected", line, fmt.Sprintf("%q parses, prints %q, which does not parse", s, p1))
		return
	}
	if l2.String() != p1 {
		o.Violate("fixpoint", line, fmt.Sprintf("%q -> %q -> %q", s, p1, l2.String()))
	}
}

func safeStr(f func() string) (s string, ok bool) {
	defer func() {
		if r := recover(); r != nil {
			ok = false
		}
	}()
	return f(), true
}

func checkJoin(o *Out, parts []gts.Location) {
	line := join("loc_join", locListSx(parts))
	res := o.Run("join", true, "loc_join", locListSx(parts))
	o.Run("order", true, "loc_order", locListSx(parts))
	if res == "panic" {
		o.Violate("panic", line, "")
		return
	}
	j := gts.Join(parts...)
	var want []dpos
	for _, p := range parts {
		want = append(want, den(p)...)
	}
	if !denEq(dedupAdj(want), dedupAdj(den(j))) {
		if k1(parts) {
			o.KnownFinding("K1")
		} else {
			o.Violate("join-changes-bases", line, fmt.Sprintf("got %s denoting %s, parts denote %s", locSx(j), denSx(den(j)), denSx(want)))
		}
		return
	}
	// idempotent: joining the parts of the result gives the result
	var again gts.Location
	if jj, ok := j.(gts.Joined); ok {
		again = gts.Join([]gts.Location(jj)...)
	} else {
		again = gts.Join(j)
	}
	if locSx(again) != locSx(j) {
		// the value j does not print/parse to itself (parsing re-joins its parts)
		if k4(parts) {
			o.KnownFinding("K4")
		} else {
			o.Violate("join-not-idempotent", line, fmt.Sprintf("%s then %s: the printed form of the first does not parse back to it", locSx(j), locSx(again)))
		}
	}
	// what Join returns prints to a text that reads back as the same value
	if locSx(again) == locSx(j) {
		checkPrintParse(o, j)
	}
	ord := gts.Order(parts...)
	if !denEq(want, den(ord)) {
		o.Violate("order-changes-bases", line, locSx(ord))
	}
}
