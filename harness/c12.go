package main

import (
	"fmt"
	"os"
	"reflect"
	"sort"

	"github.com/go-gts/gts"
)

func init() {
	props["C12"] = runC12
	ops["repair"] = func(a []string) string {
		var ff []gts.Feature
		for _, f := range parseSx(a[0])[0].list {
			ff = append(ff, sxFeat(f))
		}
		return "ok " + featsSx(gts.Repair(ff))
	}
}

func classOf(f gts.Feature) string { return fmt.Sprintf("%s:%v", f.Key, f.Props) }

// the end parts that may abut, written independently of mergeFragments
func firstRange(l gts.Location) (gts.Ranged, bool) {
	switch v := l.(type) {
	case gts.Ranged:
		return v, true
	case gts.Joined:
		if len(v) > 0 {
			r, ok := v[0].(gts.Ranged)
			return r, ok
		}
	case gts.Ordered:
		if len(v) > 0 {
			r, ok := v[0].(gts.Ranged)
			return r, ok
		}
	}
	return gts.Ranged{}, false
}

func lastRange(l gts.Location) (gts.Ranged, bool) {
	switch v := l.(type) {
	case gts.Ranged:
		return v, true
	case gts.Joined:
		if len(v) > 0 {
			r, ok := v[len(v)-1].(gts.Ranged)
			return r, ok
		}
	case gts.Ordered:
		if len(v) > 0 {
			r, ok := v[len(v)-1].(gts.Ranged)
			return r, ok
		}
	}
	return gts.Ranged{}, false
}

// abuts: a 3'-partial end of a meets a 5'-partial start of b (any abutting ends for source)
func abuts(a, b gts.Feature) bool {
	la, lb := a.Loc, b.Loc
	ca, oka := la.(gts.Complemented)
	cb, okb := lb.(gts.Complemented)
	if oka != okb {
		return false
	}
	if oka {
		la, lb = ca.Location, cb.Location
		if _, ok := la.(gts.Complemented); ok {
			return false
		}
		if _, ok := lb.(gts.Complemented); ok {
			return false
		}
	}
	l, ok1 := lastRange(la)
	r, ok2 := firstRange(lb)
	if !ok1 || !ok2 || l.End != r.Start {
		return false
	}
	return a.Key == "source" || (l.Partial.Partial3 && r.Partial.Partial5)
}

func coveredBy(ff []gts.Feature) map[string]map[dpos]bool {
	out := map[string]map[dpos]bool{}
	for _, f := range ff {
		c := classOf(f)
		if out[c] == nil {
			out[c] = map[dpos]bool{}
		}
		for _, d := range den(f.Loc) {
			out[c][d] = true
		}
	}
	return out
}

func checkRepair(o *Out, ff []gts.Feature) {
	line := join("repair", featsSx(ff))
	before := featsSx(ff)
	res := o.Run("repair", true, "repair", featsSx(ff))
	if res == "panic" {
		o.Violate("panic", line, "")
		return
	}
	out := gts.Repair(ff)
	if featsSx(ff) != before {
		o.Violate("argument-modified", line, "")
	}
	// idempotent
	again := o.Run("repair-again", true, "repair", featsSx(out))
	if again != "ok "+featsSx(out) {
		o.Violate("not-idempotent", line, again)
	}
	// unchanged when nothing abuts
	anyAbut := false
	for i := range ff {
		for j := range ff {
			if i != j && classOf(ff[i]) == classOf(ff[j]) && abuts(ff[i], ff[j]) {
				anyAbut = true
			}
		}
	}
	if !anyAbut && featsSx(out) != before {
		o.Violate("changed-though-nothing-abuts", line, featsSx(out))
	}
	// the set of residues covered by each class never changes; no class appears or disappears
	cb, ca := coveredBy(ff), coveredBy(out)
	if !reflect.DeepEqual(cb, ca) {
		o.Violate("class-coverage-changed", line, featsSx(out))
	}
	// only abutting partial ends merge: the number of features of a class
	// drops by at most the number of abutting pairs
	cntB, cntA := map[string]int{}, map[string]int{}
	for _, f := range ff {
		cntB[classOf(f)]++
	}
	for _, f := range out {
		cntA[classOf(f)]++
	}
	for c, n := range cntB {
		pairs := 0
		for i := range ff {
			for j := range ff {
				if i != j && classOf(ff[i]) == c && classOf(ff[j]) == c && abuts(ff[i], ff[j]) {
					pairs++
				}
			}
		}
		if n-cntA[c] > pairs {
			o.Violate("merged-without-abutting", line, fmt.Sprintf("class %s: %d -> %d features with %d abutting pairs", c, n, cntA[c], pairs))
		}
	}
}

func runC12(o *Out) {
	runC12CLI(o)
	L := 12
	propsets := []gts.Props{{{"gene", "a"}}, {{"gene", "a"}, {"note", "x y"}},
		// classes that differ only in an earlier value of a repeated qualifier, or only in qualifier order
		{{"db_xref", "A", "Z"}}, {{"db_xref", "B", "Z"}}, {{"note", "x y"}, {"gene", "a"}}}
	keys := []string{"CDS", "source"}
	// tables of 0..5 features over two keys x two prop sets
	nr := 1500
	if o.Tier == "thorough" {
		nr = 60000
	}
	shapes := append(family(L, false), gts.Join(gts.Range(0, 2), gts.PartialRange(4, 6, gts.Partial3)), gts.PartialRange(6, 9, gts.Partial5),
		gts.Complemented{Location: gts.PartialRange(2, 6, gts.Partial3)}, gts.Complemented{Location: gts.PartialRange(6, 9, gts.Partial5)},
		gts.Order(gts.Range(0, 2), gts.PartialRange(3, 6, gts.Partial3)), gts.Range(2, 6), gts.Range(6, 8))
	for k := 0; k < nr; k++ {
		n := o.Rng.Intn(6)
		var ff []gts.Feature
		for i := 0; i < n; i++ {
			ff = append(ff, gts.Feature{Key: keys[o.Rng.Intn(5)/4], Loc: shapes[o.Rng.Intn(len(shapes))], Props: propsets[o.Rng.Intn(len(propsets))]})
		}
		checkRepair(o, ff)
	}
	// two fragments that abut with facing partial ends and differ in exactly one
	// qualifier (its value, or its presence): never the same class, whatever the name
	qnames := []string{"codon_start", "gene", "locus_tag", "old_locus_tag", "product", "note", "db_xref", "transl_table", "protein_id",
		"EC_number", "function", "standard_name", "translation", "exception", "inference", "experiment", "allele", "gene_synonym",
		"number", "pseudo", "ribosomal_slippage", "organism", "mol_type", "strain", "x_unknown"}
	for _, qn := range qnames {
		for _, key := range keys {
			left, right := gts.PartialRange(1, 5, gts.Partial3), gts.PartialRange(5, 9, gts.Partial5)
			base := gts.Props{{"gene", "g"}}
			pa := append(append(gts.Props{}, base...), []string{qn, "1"})
			pb := append(append(gts.Props{}, base...), []string{qn, "2"})
			checkRepair(o, []gts.Feature{{Key: key, Loc: left, Props: pa}, {Key: key, Loc: right, Props: pb}})
			checkRepair(o, []gts.Feature{{Key: key, Loc: left, Props: pa}, {Key: key, Loc: right, Props: base}})
			checkRepair(o, []gts.Feature{{Key: key, Loc: gts.Complemented{Location: right}, Props: pb}, {Key: key, Loc: gts.Complemented{Location: left}, Props: pa}})
		}
	}
	// classes are compared as they are, not by a digest: values chosen so that the
	// printed classes collide under 32-bit FNV-1a and under the 31-polynomial hash
	for _, pr := range [][2]string{{"navA", "gwvY9"}, {"navI", "gwvY1"}, {"ndzA", "gwuW9"}, {"Aa", "BB"}, {"AaAa", "BBBB"}} {
		for _, key := range []string{"gene", "CDS"} {
			left, right := gts.PartialRange(1, 5, gts.Partial3), gts.PartialRange(5, 9, gts.Partial5)
			checkRepair(o, []gts.Feature{{Key: key, Loc: left, Props: gts.Props{{"gene", pr[0]}}}, {Key: key, Loc: right, Props: gts.Props{{"gene", pr[1]}}}})
		}
	}
	// restoration: slice;...;slice;concat;repair
	var origs []gts.Location
	for _, l := range shapes {
		if hasAmbiguous(l) || len(den(l)) == 0 || !coordsIn(l, 0, L) || !wellMarked(l) || !dupFree(l) {
			continue
		}
		origs = append(origs, l)
	}
	cutsets := [][]int{{3}, {6}, {2, 7}, {5, 6}, {1, 4, 9}, {4}, {8}}
	cnt := 0
	for _, l := range origs {
		for _, cs := range cutsets {
			cnt++
			if o.Tier != "thorough" && isMulti(l) && cnt%3 != int(o.Seed%3) {
				continue
			}
			checkRestore(o, l, cs, L)
		}
	}
}

func checkRestore(o *Out, l gts.Location, cuts []int, L int) {
	var ff gts.FeatureSlice
	ff = ff.Insert(gts.Feature{Key: "source", Loc: gts.Range(0, L), Props: gts.Props{{"organism", "x"}}})
	ff = ff.Insert(gts.Feature{Key: "CDS", Loc: l, Props: gts.Props{{"gene", "a"}}})
	ff = ff.Insert(gts.Feature{Key: "misc", Loc: gts.Range(1, 2), Props: gts.Props{{"note", "n"}}})
	seq := gts.New(nil, ff, letters(L))
	bounds := append(append([]int{0}, cuts...), L)
	var pieces []gts.Sequence
	ok := true
	func() {
		defer func() {
			if r := recover(); r != nil {
				ok = false
			}
		}()
		for j := 0; j+1 < len(bounds); j++ {
			pieces = append(pieces, gts.Slice(parseSeq(seqSx(seq)), bounds[j], bounds[j+1]))
		}
	}()
	if !ok {
		return // C03/C10 report this
	}
	whole := gts.Concat(pieces...)
	in := whole.Features()
	line := join("repair", featsSx(in))
	res := o.Run("repair-after-split", true, "repair", featsSx(in))
	if res == "panic" {
		o.Violate("panic", line, "")
		return
	}
	out := gts.Repair(in)
	sort.Sort(gts.FeatureSlice(out))
	// the cut feature is restored: same location, partial markers and qualifiers
	var got []gts.Feature
	for _, f := range out {
		if f.Key == "CDS" {
			got = append(got, f)
		}
	}
	// joins whose parts are individually complemented are written in reverse
	// order and are outside the restoration claim
	if j, isJ := l.(gts.Joined); isJ {
		for _, p := range j {
			if _, c := p.(gts.Complemented); c {
				return
			}
		}
	}
	if o2, isO := l.(gts.Ordered); isO {
		for _, p := range o2 {
			if _, c := p.(gts.Complemented); c {
				return
			}
		}
	}
	if len(got) != 1 || locSx(got[0].Loc) != locSx(l) || !reflect.DeepEqual(got[0].Props, gts.Props{{"gene", "a"}}) {
		if k1InPieces(l, bounds, L) {
			o.KnownFinding("K1")
			return
		}
		if cutBetweenParts(l, cuts) {
			o.KnownFinding("K7")
			return
		}
		o.Violate("not-restored", line, fmt.Sprintf("%s cut at %v: repaired to %s", locSx(l), cuts, featsSx(got)))
	}
	// source restored up to partial markers
	var src []gts.Feature
	for _, f := range out {
		if f.Key == "source" {
			src = append(src, f)
		}
	}
	if len(src) != 1 || !denEq(den(src[0].Loc), den(gts.Range(0, L))) {
		o.Violate("source-not-restored", line, featsSx(src))
	}
}

// cutBetweenParts: known finding K7. Slice leaves a zero-length between-site
// for every part of a multi-part feature that falls outside the window (a join
// absorbs it only when a range abuts the cut; an order never does), and Concat
// does not offset a site at position 0. Repair therefore re-assembles a
// multi-part feature only when it is an ascending join of separated ranges
// and every cut inside its hull falls strictly inside one of the ranges.
func cutBetweenParts(l gts.Location, cuts []int) bool {
	inner := stripC(l)
	var parts []gts.Location
	switch v := inner.(type) {
	case gts.Joined:
		parts = v
	case gts.Ordered:
		return true
	default:
		return false
	}
	prevEnd := -1
	for _, p := range parts {
		r, ok := p.(gts.Ranged)
		if !ok || r.Start >= r.End || r.Start <= prevEnd {
			return true
		}
		prevEnd = r.End
	}
	lo := parts[0].(gts.Ranged).Start
	hi := parts[len(parts)-1].(gts.Ranged).End
	for _, c := range cuts {
		if !(lo < c && c < hi) {
			continue
		}
		inside := false
		for _, p := range parts {
			if r := p.(gts.Ranged); r.Start < c && c < r.End {
				inside = true
			}
		}
		if !inside {
			return true
		}
	}
	return false
}

// gts repair, and gts split | gts join | gts repair: every record goes through
// Repair -- with no source feature, with one, with several -- and a feature cut
// by split and put back by join is one feature again.
func runC12CLI(o *Out) {
	if _, err := os.Stat(gtsBin); err != nil {
		return
	}
	sb := newSandbox()
	defer sb.close()
	base := mkRecord(gts.Linear, 60)
	p := gts.Props{{"gene", "a"}}
	frag := func(withSources int) gts.FeatureSlice {
		ff := gts.FeatureSlice{}
		switch withSources {
		case 1:
			ff = append(ff, gts.Feature{Key: "source", Loc: gts.Range(0, 60), Props: gts.Props{{"organism", "x"}}})
		case 2:
			ff = append(ff, gts.Feature{Key: "source", Loc: gts.Range(0, 30), Props: gts.Props{{"organism", "x"}}},
				gts.Feature{Key: "source", Loc: gts.Range(30, 60), Props: gts.Props{{"organism", "x"}}})
		}
		return append(ff,
			gts.Feature{Key: "CDS", Loc: gts.PartialRange(5, 20, gts.Partial3), Props: p},
			gts.Feature{Key: "CDS", Loc: gts.PartialRange(20, 33, gts.Partial5), Props: p},
			gts.Feature{Key: "gene", Loc: gts.Complemented{Location: gts.PartialRange(40, 50, gts.Partial5)}, Props: p},
			gts.Feature{Key: "gene", Loc: gts.Complemented{Location: gts.PartialRange(35, 40, gts.Partial3)}, Props: p},
			gts.Feature{Key: "misc_feature", Loc: gts.Range(52, 58), Props: gts.Props{{"note", "alone"}}})
	}
	for ns := 0; ns <= 2; ns++ {
		rec := gts.WithFeatures(base, frag(ns))
		text := gbText(rec)
		res := sb.run([]string{"repair"}, text, false, true)
		got, ok := parseRecords(res.stdout)
		line := fmt.Sprintf("gts repair on a record with %d source feature(s)", ns)
		o.Dist["cli-repair"]++
		if res.code != 0 || !ok || len(got) != 1 {
			o.Violate("cli-repair-failed", line, fmt.Sprintf("exit %d", res.code))
			continue
		}
		in, _ := parseRecords(text)
		want := gts.Repair(append(gts.FeatureSlice(nil), in[0].Features()...))
		if featsSx(got[0].Features()) != featsSx(want) {
			o.Violate("cli-repair-differs-from-Repair", line, featsSx(got[0].Features())+" want "+featsSx(want))
		}
		if len(want) >= len(in[0].Features()) {
			o.Violate("cli-repair-scenario-merges-nothing", line, featsSx(want))
		}
	}
	// split | join | repair restores a feature cut in two, with and without a source feature
	for ns := 0; ns <= 1; ns++ {
		ff := gts.FeatureSlice{}
		if ns == 1 {
			ff = append(ff, gts.Feature{Key: "source", Loc: gts.Range(0, 60), Props: gts.Props{{"organism", "x"}}})
		}
		ff = append(ff, gts.Feature{Key: "CDS", Loc: gts.Range(10, 40), Props: p}, gts.Feature{Key: "misc_feature", Loc: gts.Range(25, 26), Props: gts.Props{{"note", "cut here"}}})
		rec := gts.WithFeatures(base, ff)
		text := gbText(rec)
		line := fmt.Sprintf("split misc_feature | join | repair, %d source feature(s)", ns)
		r1 := sb.run([]string{"split", "misc_feature"}, text, false, true)
		r2 := sb.run([]string{"join"}, r1.stdout, false, true)
		r3 := sb.run([]string{"repair"}, r2.stdout, false, true)
		got, ok := parseRecords(r3.stdout)
		o.Dist["cli-split-join-repair"]++
		if r1.code != 0 || r2.code != 0 || r3.code != 0 || !ok || len(got) != 1 {
			o.Violate("cli-pipeline-failed", line, fmt.Sprintf("exit %d %d %d", r1.code, r2.code, r3.code))
			continue
		}
		n := 0
		for _, f := range got[0].Features() {
			if f.Key == "CDS" {
				n++
				if locSx(f.Loc) != locSx(gts.Range(10, 40)) {
					o.Violate("cli-pipeline-not-restored", line, locSx(f.Loc))
				}
			}
		}
		if n != 1 {
			o.Violate("cli-pipeline-not-restored", line, fmt.Sprintf("%d CDS features", n))
		}
	}
}
