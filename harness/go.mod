module verif/harness

go 1.15

require (
	github.com/go-gts/gts v0.0.0
	github.com/go-pars/pars v1.1.6
	github.com/go-wrap/wrap v1.0.3
)

replace github.com/go-gts/gts => /repo
