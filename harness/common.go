package main

import (
	"bufio"
	"encoding/hex"
	"encoding/json"
	"fmt"
	"math/rand"
	"os"
	"path/filepath"
	"sort"
	"strconv"
	"strings"
)

// Out collects the cases of one run: the case line handed to the Coq model,
// the implementation's projected result, the oracle's verdicts and the input
// distribution reported in the evidence file.
type Out struct {
	dir      string
	cases    *bufio.Writer
	impl     *bufio.Writer
	fc, fi   *os.File
	N        int
	Dist     map[string]int
	Samples  []string
	Viol     []Violation
	Known    map[string]int
	distinct map[string]bool
	Tier     string
	Seed     int64
	Rng      *rand.Rand
}

type Violation struct {
	Kind   string `json:"kind"`
	Case   string `json:"case"`
	Detail string `json:"detail"`
}

func NewOut(dir, tier string, seed int64) *Out {
	os.MkdirAll(dir, 0755)
	fc, err := os.Create(filepath.Join(dir, "cases.txt"))
	if err != nil {
		panic(err)
	}
	fi, err := os.Create(filepath.Join(dir, "impl.txt"))
	if err != nil {
		panic(err)
	}
	return &Out{dir: dir, cases: bufio.NewWriterSize(fc, 1<<20), impl: bufio.NewWriterSize(fi, 1<<20),
		fc: fc, fi: fi, Viol: []Violation{}, Samples: []string{}, Dist: map[string]int{}, Known: map[string]int{}, distinct: map[string]bool{},
		Tier: tier, Seed: seed, Rng: rand.New(rand.NewSource(seed))}
}

// Case records one correspondence case. class is a coarse label for the
// distribution; nontrivial marks cases that exercise more than a degenerate
// path (counted distinct by their case line).
func (o *Out) Case(class string, nontrivial bool, line, result string) {
	o.cases.WriteString(line)
	o.cases.WriteByte('\n')
	o.impl.WriteString(result)
	o.impl.WriteByte('\n')
	o.N++
	o.Dist[class]++
	if nontrivial {
		if len(o.distinct) < 2000000 {
			o.distinct[line] = true
		}
	}
	if len(o.Samples) < 12 && (o.N%997 == 1 || o.N < 4) {
		s := line + "  =>  " + result
		if len(s) > 300 {
			s = s[:300] + "..."
		}
		o.Samples = append(o.Samples, s)
	}
}

// Violate records a failure of the property's own predicate on the
// implementation (oracle), independent of the model.
func (o *Out) Violate(kind, caseLine, detail string) {
	if len(o.Viol) < 200 {
		o.Viol = append(o.Viol, Violation{kind, caseLine, detail})
	}
}

// KnownFinding records an oracle failure that matches a listed known finding.
func (o *Out) KnownFinding(id string) { o.Known[id]++ }

func (o *Out) Close() {
	o.cases.Flush()
	o.impl.Flush()
	o.fc.Close()
	o.fi.Close()
	classes := make([]string, 0, len(o.Dist))
	for k := range o.Dist {
		classes = append(classes, k)
	}
	sort.Strings(classes)
	m := map[string]interface{}{
		"evaluations":         o.N,
		"distinct_nontrivial": len(o.distinct),
		"distribution":        o.Dist,
		"samples":             o.Samples,
		"violations":          o.Viol,
		"known":               o.Known,
		"tier":                o.Tier,
		"seed":                o.Seed,
	}
	b, _ := json.MarshalIndent(m, "", " ")
	os.WriteFile(filepath.Join(o.dir, "harness.json"), b, 0644)
}

// ops is the table of implementation evaluators, one per case-line operator;
// generation and replay both go through it.
var ops = map[string]func(a []string) string{}

// Run evaluates op on the implementation and records the case.
func (o *Out) Run(class string, nontrivial bool, op string, args ...string) string {
	f, ok := ops[op]
	if !ok {
		panic("unknown op " + op)
	}
	res := guard(func() string { return f(args) })
	o.Case(class, nontrivial, join(append([]string{op}, args...)...), res)
	return res
}

func unhx(s string) []byte {
	p, err := hex.DecodeString(strings.TrimPrefix(s, "x"))
	if err != nil {
		panic(err)
	}
	return p
}

func atoi(s string) int {
	n, err := strconv.Atoi(s)
	if err != nil {
		panic(err)
	}
	return n
}

func hx(p []byte) string { return "x" + hex.EncodeToString(p) }

func itoa(n int) string { return fmt.Sprintf("%d", n) }

func b2s(b bool) string {
	if b {
		return "1"
	}
	return "0"
}

func join(parts ...string) string { return strings.Join(parts, " ") }

// guard runs f and maps a Go panic to the outcome "panic".
func guard(f func() string) (res string) {
	defer func() {
		if r := recover(); r != nil {
			res = "panic"
		}
	}()
	return f()
}
