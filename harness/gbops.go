package main

// GenBank reader/writer operators shared by the C01 and C07 harnesses:
// s-expression form of a record, registry reset, time-limited evaluation.

import (
	"bytes"
	"fmt"
	"strings"
	"time"

	"github.com/go-gts/gts"
	"github.com/go-gts/gts/seqio"
	"github.com/go-pars/pars"
	"github.com/go-wrap/wrap"
)

var regSaved [3][]string

func init() {
	regSaved[0] = append([]string(nil), seqio.QuotedQualifierNames...)
	regSaved[1] = append([]string(nil), seqio.LiteralQualifierNames...)
	regSaved[2] = append([]string(nil), seqio.ToggleQualifierNames...)

	ops["gb_scan"] = func(a []string) string {
		return timed(func() string {
			recs, clean := scanGenBank(unhx(a[0]))
			return join("ok", gbsSx(recs), b2s(clean))
		})
	}
	ops["auto_scan"] = func(a []string) string {
		return timed(func() string {
			resetRegistry()
			sc := seqio.NewAutoScanner(bytes.NewReader(unhx(a[0])))
			var gbs []seqio.GenBank
			var fas []string
			for sc.Scan() {
				switch v := sc.Value().(type) {
				case seqio.GenBank:
					gbs = append(gbs, v)
				case seqio.Fasta:
					fas = append(fas, fmt.Sprintf("(%s %s)", hx([]byte(v.Desc)), hx(v.Data)))
				}
			}
			return join("ok", gbsSx(gbs), "("+strings.Join(fas, " ")+")", b2s(sc.Err() == nil))
		})
	}
	ops["gb_write"] = func(a []string) string {
		resetRegistry()
		gb := sxGB(parseSx(a[0])[0])
		return "ok " + hx([]byte(gb.String()))
	}
	ops["as_date"] = func(a []string) string {
		d, err := seqio.AsDate(string(unhx(a[0])))
		if err != nil {
			return "err"
		}
		return join("ok", itoa(d.Year), itoa(int(d.Month)), itoa(d.Day))
	}
	ops["date_show"] = func(a []string) string {
		d := seqio.Date{Year: atoi(a[0]), Month: time.Month(atoi(a[1])), Day: atoi(a[2])}
		return "ok " + hx([]byte(strings.ToUpper(d.ToTime().Format("02-Jan-2006"))))
	}
	ops["table_parse"] = func(a []string) string {
		return timed(func() string {
			resetRegistry()
			res, err, rest, pan := runParser(seqio.INSDCTableParser(""), unhx(a[0]))
			switch {
			case pan:
				return "panic"
			case err != nil:
				return "err"
			}
			return join("ok", featsSx(res.Value.([]gts.Feature)), itoa(rest))
		})
	}
	ops["table_show"] = func(a []string) string {
		resetRegistry()
		var ff []gts.Feature
		for _, f := range parseSx(a[0])[0].list {
			ff = append(ff, sxFeat(f))
		}
		return "ok " + hx([]byte(seqio.INSDCFormatter{Table: ff, Prefix: "     ", Depth: 21}.String()))
	}
	ops["refs_slice"] = func(a []string) string {
		f := seqio.GenBankFields{Molecule: gts.Molecule(string(unhx(a[0])))}
		for _, r := range parseSx(a[3])[0].list {
			f.References = append(f.References, sxRef(r))
		}
		out := f.Slice(atoi(a[1]), atoi(a[2])).(seqio.GenBankFields)
		parts := make([]string, len(out.References))
		for i, r := range out.References {
			parts[i] = refSx(r)
		}
		return "ok (" + strings.Join(parts, " ") + ")"
	}
	ops["wrap_space"] = func(a []string) string {
		return "ok " + hx([]byte(wrap.Space(string(unhx(a[0])), atoi(a[1]))))
	}
	ops["flatfile_split"] = func(a []string) string {
		parts := seqio.FlatFileSplit(string(unhx(a[0])))
		hs := make([]string, len(parts))
		for i, p := range parts {
			hs[i] = hx([]byte(p))
		}
		return "ok (" + strings.Join(hs, " ") + ")"
	}
}

var _ = pars.Void

func resetRegistry() {
	seqio.QuotedQualifierNames = append([]string(nil), regSaved[0]...)
	seqio.LiteralQualifierNames = append([]string(nil), regSaved[1]...)
	seqio.ToggleQualifierNames = append([]string(nil), regSaved[2]...)
}

// timed evaluates f under recover and a wall-clock limit; a run that does not
// return in time is the outcome "hang".
func timed(f func() string) string {
	ch := make(chan string, 1)
	go func() { ch <- guard(f) }()
	select {
	case r := <-ch:
		return r
	case <-time.After(20 * time.Second):
		return "hang"
	}
}

func scanGenBank(input []byte) ([]seqio.GenBank, bool) {
	resetRegistry()
	sc := seqio.NewScanner(seqio.GenBankParser, bytes.NewReader(input))
	var out []seqio.GenBank
	for sc.Scan() {
		out = append(out, sc.Value().(seqio.GenBank))
	}
	// a scanner that has stopped stays stopped: asking again yields no further
	// record, and what is reported is its verdict after having been asked again
	for k := 0; k < 2; k++ {
		if sc.Scan() {
			out = append(out, sc.Value().(seqio.GenBank))
		}
	}
	return out, sc.Err() == nil
}

func hxs(s string) string { return hx([]byte(s)) }

func hxList(ss []string) string {
	hs := make([]string, len(ss))
	for i, s := range ss {
		hs[i] = hxs(s)
	}
	return "(" + strings.Join(hs, " ") + ")"
}

func gbsSx(recs []seqio.GenBank) string {
	parts := make([]string, len(recs))
	for i, r := range recs {
		parts[i] = gbSx(r, false)
	}
	return "(" + strings.Join(parts, " ") + ")"
}

// gbSx renders a record; residues selects the input form (origin as residues)
// over the output form (origin as the formatted block).
func gbSx(gb seqio.GenBank, residues bool) string {
	f := gb.Fields
	var dbl, refs, extra []string
	for _, p := range f.DBLink {
		dbl = append(dbl, fmt.Sprintf("(%s %s)", hxs(p.Key), hxs(p.Value)))
	}
	for _, r := range f.References {
		refs = append(refs, refSx(r))
	}
	for _, e := range f.Extra {
		extra = append(extra, fmt.Sprintf("(%s %s)", hxs(e.Name), hxs(e.Value)))
	}
	region := "-"
	if seg, ok := f.Region.(gts.Segment); ok {
		region = fmt.Sprintf("(%d %d)", seg[0], seg[1])
	}
	origin := ""
	if gb.Origin != nil {
		if residues {
			origin = string(gb.Origin.Bytes())
		} else {
			origin = gb.Origin.String()
		}
	}
	return fmt.Sprintf("(GB %s %s %d %s (%d %d %d) %s %s %s (%s) %s %s %s %s (%s) %s (%s) (%s %d %d) %s %s %s)",
		hxs(f.LocusName), hxs(string(f.Molecule)), int(f.Topology), hxs(f.Division),
		f.Date.Year, int(f.Date.Month), f.Date.Day,
		hxs(f.Definition), hxs(f.Accession), hxs(f.Version),
		strings.Join(dbl, " "), hxList(f.Keywords), hxs(f.Source.Species), hxs(f.Source.Name), hxList(f.Source.Taxon),
		strings.Join(refs, " "), hxList(f.Comments), strings.Join(extra, " "),
		hxs(f.Contig.Accession), f.Contig.Region[0], f.Contig.Region[1], region,
		featsSx(gb.Table), hxs(origin))
}

func sxStrs(x *sx) []string {
	var out []string
	for _, e := range x.list {
		out = append(out, string(unhx(e.atom)))
	}
	return out
}

// sxGB builds a record from the input form (origin given as residues).
func sxGB(x *sx) seqio.GenBank {
	a := x.list
	s := func(i int) string { return string(unhx(a[i].atom)) }
	f := seqio.GenBankFields{
		LocusName: s(1), Molecule: gts.Molecule(s(2)), Topology: gts.Topology(atoi(a[3].atom)), Division: s(4),
		Date:       seqio.Date{Year: atoi(a[5].list[0].atom), Month: time.Month(atoi(a[5].list[1].atom)), Day: atoi(a[5].list[2].atom)},
		Definition: s(6), Accession: s(7), Version: s(8),
	}
	for _, p := range a[9].list {
		f.DBLink = append(f.DBLink, seqio.Pair{Key: string(unhx(p.list[0].atom)), Value: string(unhx(p.list[1].atom))})
	}
	f.Keywords = sxStrs(a[10])
	f.Source = seqio.Organism{Species: s(11), Name: s(12), Taxon: sxStrs(a[13])}
	for _, r := range a[14].list {
		f.References = append(f.References, sxRef(r))
	}
	f.Comments = sxStrs(a[15])
	for _, e := range a[16].list {
		f.Extra = append(f.Extra, seqio.GenBankExtraField(string(unhx(e.list[0].atom)), string(unhx(e.list[1].atom))))
	}
	f.Contig = seqio.Contig{Accession: string(unhx(a[17].list[0].atom)), Region: gts.Segment{atoi(a[17].list[1].atom), atoi(a[17].list[2].atom)}}
	if a[18].isL {
		f.Region = gts.Segment{atoi(a[18].list[0].atom), atoi(a[18].list[1].atom)}
	}
	var ff gts.FeatureSlice
	for _, e := range a[19].list {
		ff = append(ff, sxFeat(e))
	}
	return seqio.GenBank{Fields: f, Table: ff, Origin: seqio.NewOrigin(unhx(a[20].atom))}
}

func refSx(r seqio.Reference) string {
	pm := "-"
	if r.Xref != nil {
		if v, ok := r.Xref["PUBMED"]; ok {
			pm = hxs(v)
		}
	}
	return fmt.Sprintf("(REF %d %s %s %s %s %s %s %s)", r.Number, hxs(r.Info), hxs(r.Authors),
		hxs(r.Group), hxs(r.Title), hxs(r.Journal), pm, hxs(r.Comment))
}

func sxRef(r *sx) seqio.Reference {
	q := r.list
	t := func(i int) string { return string(unhx(q[i].atom)) }
	ref := seqio.Reference{Number: atoi(q[1].atom), Info: t(2), Authors: t(3), Group: t(4), Title: t(5), Journal: t(6), Comment: t(8)}
	if q[7].atom != "-" {
		ref.Xref = map[string]string{"PUBMED": t(7)}
	}
	return ref
}
