package main

import (
	"fmt"
	"os"
	"reflect"
	"sort"
	"strings"

	"github.com/go-gts/gts"
)

func init() {
	props["C08"] = runC08
	ops["as_modifier"] = func(a []string) string {
		m, err := gts.AsModifier(string(unhx(a[0])))
		if err != nil {
			return "err"
		}
		return "ok " + modSx(m)
	}
	ops["locate"] = func(a []string) string {
		str := string(unhx(a[0]))
		seq := parseSeq(a[1])
		res := "err"
		func() {
			defer func() {
				if r := recover(); r != nil {
					res = "panic"
				}
			}()
			loc, err := gts.AsLocator(str)
			if err != nil {
				return
			}
			// a locator is a function of the sequence alone: what it located before
			// (here: the same sequence, then a different one) has no bearing on what
			// it locates now, so the answer reported is that of the third use
			first := fmt.Sprint(loc(seq))
			_ = loc(gts.New(nil, nil, []byte("acgtacgtacgtacgtacgtacgtacgt")))
			rr := loc(seq)
			if fmt.Sprint(rr) != first {
				res = "ok unstable " + first + " then " + fmt.Sprint(rr)
				return
			}
			parts := make([]string, len(rr))
			for i, r := range rr {
				parts[i] = regionSx(r)
			}
			res = "ok (" + strings.Join(parts, " ") + ")"
		}()
		return res
	}
	ops["mod_show"] = func(a []string) string {
		return "ok " + hx([]byte(sxMod(parseSx(a[0])[0]).String()))
	}
	props["C09"] = runC09
	ops["region_resize"] = func(a []string) string {
		return "ok " + regionSx(sxRegion(parseSx(a[0])[0]).Resize(sxMod(parseSx(a[1])[0])))
	}
	ops["region_len"] = func(a []string) string { return "ok " + itoa(sxRegion(parseSx(a[0])[0]).Len()) }
	ops["region_head"] = func(a []string) string { return "ok " + itoa(sxRegion(parseSx(a[0])[0]).Head()) }
	ops["region_tail"] = func(a []string) string { return "ok " + itoa(sxRegion(parseSx(a[0])[0]).Tail()) }
	ops["region_complement"] = func(a []string) string {
		return "ok " + regionSx(sxRegion(parseSx(a[0])[0]).Complement())
	}
	ops["mod_apply"] = func(a []string) string {
		h, t := sxMod(parseSx(a[0])[0]).Apply(atoi(a[1]), atoi(a[2]))
		return join("ok", itoa(h), itoa(t))
	}
	ops["minimize"] = func(a []string) string { return "ok " + segsSx(gts.Minimize(sxRegion(parseSx(a[0])[0]))) }
	ops["invert_linear"] = func(a []string) string {
		return "ok " + regionsSx(gts.InvertLinear(sxRegion(parseSx(a[0])[0]), atoi(a[1])))
	}
	ops["invert_circular"] = func(a []string) string {
		return "ok " + regionsSx(gts.InvertCircular(sxRegion(parseSx(a[0])[0]), atoi(a[1])))
	}
}

func modSx(m gts.Modifier) string {
	switch v := m.(type) {
	case gts.Head:
		return fmt.Sprintf("(H %d)", int(v))
	case gts.Tail:
		return fmt.Sprintf("(T %d)", int(v))
	case gts.HeadTail:
		return fmt.Sprintf("(HT %d %d)", v[0], v[1])
	case gts.HeadHead:
		return fmt.Sprintf("(HH %d %d)", v[0], v[1])
	case gts.TailTail:
		return fmt.Sprintf("(TT %d %d)", v[0], v[1])
	}
	return "(UNKNOWN)"
}

func sxMod(x *sx) gts.Modifier {
	a := x.list
	switch a[0].atom {
	case "H":
		return gts.Head(atoi(a[1].atom))
	case "T":
		return gts.Tail(atoi(a[1].atom))
	case "HT":
		return gts.HeadTail{atoi(a[1].atom), atoi(a[2].atom)}
	case "HH":
		return gts.HeadHead{atoi(a[1].atom), atoi(a[2].atom)}
	case "TT":
		return gts.TailTail{atoi(a[1].atom), atoi(a[2].atom)}
	}
	panic("modifier expected")
}

func segsSx(ss []gts.Segment) string {
	parts := make([]string, len(ss))
	for i, s := range ss {
		parts[i] = regionSx(s)
	}
	return "(" + strings.Join(parts, " ") + ")"
}

func regionsSx(rr []gts.Region) string {
	parts := make([]string, len(rr))
	for i, r := range rr {
		parts[i] = regionSx(r)
	}
	return "(" + strings.Join(parts, " ") + ")"
}

// regionDen: the stranded positions a region denotes, by an independent walker.
func regionDen(r gts.Region) []dpos {
	switch v := r.(type) {
	case gts.Segment:
		var out []dpos
		if v[1] < v[0] {
			for x := v[0] - 1; x >= v[1]; x-- {
				out = append(out, dpos{x, true})
			}
		} else {
			for x := v[0]; x < v[1]; x++ {
				out = append(out, dpos{x, false})
			}
		}
		return out
	case gts.Regions:
		var out []dpos
		for _, e := range v {
			out = append(out, regionDen(e)...)
		}
		return out
	}
	panic("regionDen")
}

// ---------------------------------------------------------------- C08

// bounds [lo,hi) of a modifier in the coordinates of the spliced region
func modBounds(m gts.Modifier, total int) (int, int) {
	lo, hi := 0, 0
	switch v := m.(type) {
	case gts.Head:
		lo, hi = int(v), int(v)
	case gts.Tail:
		lo, hi = total+int(v), total+int(v)
	case gts.HeadTail:
		lo, hi = v[0], total+v[1]
	case gts.HeadHead:
		lo, hi = v[0], v[1]
	case gts.TailTail:
		lo, hi = total+v[0], total+v[1]
	}
	if hi < lo {
		hi = lo
	}
	return lo, hi
}

func allModifiers(total int, full bool) []gts.Modifier {
	var out []gts.Modifier
	lo, hi := -total-3, total+3
	step := 1
	if !full {
		step = 2
	}
	for p := lo; p <= hi; p++ {
		out = append(out, gts.Head(p), gts.Tail(p))
	}
	for p := lo; p <= hi; p += step {
		for q := lo; q <= hi; q += step {
			out = append(out, gts.HeadHead{p, q}, gts.HeadTail{p, q}, gts.TailTail{p, q})
		}
	}
	return out
}

func buildRegions(o *Out, maxSegs int) []gts.Regions {
	var out []gts.Regions
	var rec func(cur gts.Regions, pos int, k int)
	rec = func(cur gts.Regions, pos int, k int) {
		if len(cur) > 0 {
			cp := make(gts.Regions, len(cur))
			copy(cp, cur)
			out = append(out, cp)
		}
		if k == maxSegs {
			return
		}
		for _, gap := range []int{0, 1, 2} {
			if len(cur) == 0 && gap > 0 {
				continue
			}
			for _, ln := range []int{0, 1, 2, 3} {
				s := pos + gap
				rec(append(cur, gts.Segment{s, s + ln}), s+ln, k+1)
			}
		}
	}
	rec(nil, 2, 0)
	return out
}

// mirrorRegions: the same residues read on the other strand: segments in the
// opposite order, each with head and tail exchanged.
func mirrorRegions(rr gts.Regions) gts.Regions {
	out := make(gts.Regions, len(rr))
	for i, r := range rr {
		seg := r.(gts.Segment)
		out[len(rr)-1-i] = gts.Segment{seg[1], seg[0]}
	}
	return out
}

func runC08(o *Out) {
	maxSegs := 3
	if o.Tier == "thorough" {
		maxSegs = 4
	}
	seqLen := 40
	seq := gts.New(nil, nil, []byte("abcdefghijklmnopqrstuvwxyzABCDEFGHIJKLMN")[:seqLen])
	regs := buildRegions(o, maxSegs)
	// 5-segment regions: a sample
	five := []gts.Regions{
		{gts.Segment{2, 4}, gts.Segment{5, 6}, gts.Segment{6, 9}, gts.Segment{11, 11}, gts.Segment{12, 14}},
		{gts.Segment{3, 6}, gts.Segment{9, 10}, gts.Segment{13, 17}, gts.Segment{18, 19}, gts.Segment{20, 23}},
	}
	regs = append(regs, five...)
	cnt := 0
	for _, fwd := range regs {
		for _, strand := range []bool{false, true} {
			var r gts.Region = fwd
			if strand {
				// the reverse-strand region is written out here, not obtained from
				// Regions.Complement, which is itself under test below
				r = mirrorRegions(fwd)
				res := o.Run("region-complement", len(fwd) > 1, "region_complement", regionSx(fwd))
				if want := "ok " + regionSx(r); res != want {
					o.Violate("complement-of-regions", join("region_complement", regionSx(fwd)), fmt.Sprintf("got %s want %s", res, want))
				}
				// the complement strand reads the reverse complement of the same residues
				a, b := fwd.Locate(seq).Bytes(), fwd.Complement().Locate(seq).Bytes()
				if string(b) != string(gts.Complement(gts.Reverse(gts.New(nil, nil, a))).Bytes()) {
					o.Violate("complement-locate", join("region_complement", regionSx(fwd)), fmt.Sprintf("%q vs %q", a, b))
				}
			}
			if len(fwd) == 1 && !strand {
				// also the bare segment (Segment.Resize rather than Regions.Resize)
				checkResizeAll(o, fwd[0], seq, &cnt, true)
				checkResizeAll(o, fwd[0].Complement(), seq, &cnt, true)
			}
			checkResizeAll(o, r, seq, &cnt, len(fwd) <= 2 || o.Tier == "thorough")
		}
	}
	// regions whose segments are not in ascending order (a feature spanning the
	// origin, exons listed 3' to 5'), on either strand and mixed, on RNA residues:
	// the strand of a region is the strand of each of its segments, never a guess
	// from where it begins and ends
	rna := gts.New(nil, nil, []byte("acguacguugcaUGCAacguuuacguacgu"))
	for _, r := range []gts.Regions{
		{gts.Segment{11, 16}, gts.Segment{1, 4}},
		{gts.Segment{18, 23}, gts.Segment{2, 5}, gts.Segment{8, 9}},
		{gts.Segment{16, 11}, gts.Segment{1, 4}},
		{gts.Segment{4, 1}, gts.Segment{16, 11}},
		{gts.Segment{20, 24}, gts.Regions{gts.Segment{9, 12}, gts.Segment{3, 5}}},
	} {
		checkResizeAll(o, r, rna, &cnt, true)
		whole, ok := safeSeq(func() gts.Sequence { return r.Locate(rna) })
		var want []byte
		for _, d := range regionDen(r) {
			c := rna.Bytes()[d.p]
			if d.c {
				c = map[byte]byte{'a': 't', 'c': 'g', 'g': 'c', 'u': 'a', 'A': 'T', 'C': 'G', 'G': 'C', 'U': 'A'}[c]
			}
			want = append(want, c)
		}
		if !ok || string(whole.Bytes()) != string(want) {
			o.Violate("locate-reads-the-denoted-residues", join("region_locate", regionSx(r)), fmt.Sprintf("%q want %q", whole.Bytes(), want))
		}
	}
	// mirror law and modifier normal forms
	for _, m := range allModifiers(4, true) {
		for h := 0; h <= 6; h++ {
			for t := 0; t <= 6; t++ {
				o.Run("mod_apply", true, "mod_apply", modSx(m), itoa(h), itoa(t))
				if h != t {
					L := 10
					a, b := m.Apply(h, t)
					c, d := m.Apply(L-h, L-t)
					if c != L-a || d != L-b {
						o.Violate("mirror", join("mod_apply", modSx(m), itoa(h), itoa(t)), fmt.Sprintf("(%d,%d) vs mirrored (%d,%d)", a, b, c, d))
					}
				}
			}
		}
		s := m.String()
		back, err := gts.AsModifier(s)
		if err != nil {
			o.Violate("modifier-reparse", "modifier "+modSx(m), fmt.Sprintf("%q does not parse: %v", s, err))
		} else if back.String() != s {
			o.Violate("modifier-roundtrip", "modifier "+modSx(m), fmt.Sprintf("%q reparsed prints %q", s, back.String()))
		} else {
			// same behaviour
			for h := 0; h <= 5; h += 5 {
				a, b := m.Apply(h, 7)
				c, d := back.Apply(h, 7)
				if a != c || b != d {
					o.Violate("modifier-roundtrip-behaviour", "modifier "+modSx(m), s)
				}
			}
		}
	}
	runModifierText(o)
	runLocators(o)
	runC08Extract(o)
}

// every string of up to 6 (thorough 7) symbols over the modifier alphabet through
// AsModifier (model: as_modifier), and the printed form of every modifier with
// offsets in a small grid and at the edges of int through Modifier.String
// (model: mod_show) and back.
func runModifierText(o *Out) {
	syms := []string{"^", "$", "..", ".", "+", "-", "0", "1", "7"}
	maxSyms := 5
	if o.Tier == "thorough" {
		maxSyms = 6
	}
	var rec func(cur string, n int)
	rec = func(cur string, n int) {
		if n > 0 {
			res := o.Run("modifier-string", true, "as_modifier", hx([]byte(cur)))
			if res == "panic" {
				o.Violate("panic", "as_modifier "+hx([]byte(cur)), cur)
			} else if strings.HasPrefix(res, "ok ") {
				// an accepted string prints to a fixed point of parse-then-print
				m, _ := gts.AsModifier(cur)
				back, err := gts.AsModifier(m.String())
				if err != nil || back.String() != m.String() {
					o.Violate("modifier-parse-print-fixpoint", "as_modifier "+hx([]byte(cur)), fmt.Sprintf("%q -> %q", cur, m.String()))
				}
			}
		}
		if n == maxSyms {
			return
		}
		for _, s := range syms {
			rec(cur+s, n+1)
		}
	}
	rec("", 0)
	offs := []int{0, 1, -1, 9, -9, 10, -10, 99, 100, -100, 12345, -12345, 1<<31 - 1, -(1 << 31), 1<<62 + 7, -(1<<62 + 7), 1<<63 - 1, -(1<<63 - 1)}
	var mods []gts.Modifier
	for _, p := range offs {
		mods = append(mods, gts.Head(p), gts.Tail(p))
		for _, q := range offs {
			mods = append(mods, gts.HeadTail{p, q}, gts.HeadHead{p, q}, gts.TailTail{p, q})
		}
	}
	for _, m := range mods {
		res := o.Run("modifier-print", true, "mod_show", modSx(m))
		if !strings.HasPrefix(res, "ok ") {
			continue
		}
		txt := m.String()
		res = o.Run("modifier-reparse", true, "as_modifier", hx([]byte(txt)))
		if want := "ok " + modSx(m); res != want {
			o.Violate("modifier-roundtrip", "as_modifier "+hx([]byte(txt)), fmt.Sprintf("%s printed %q reads back as %s", modSx(m), txt, res))
		}
	}
}

func checkResizeAll(o *Out, r gts.Region, seq gts.Sequence, cnt *int, all bool) {
	total := r.Len()
	spliced := regionDen(r)
	for _, m := range allModifiers(total, false) {
		*cnt++
		if !all && *cnt%4 != int(o.Seed%4) {
			continue
		}
		res := o.Run("resize", true, "region_resize", regionSx(r), modSx(m))
		line := join("region_resize", regionSx(r), modSx(m))
		if res == "panic" {
			o.Violate("panic", line, "")
			continue
		}
		got := r.Resize(m)
		lo, hi := modBounds(m, total)
		if 0 <= lo && hi <= total {
			want := spliced[lo:hi]
			if !denEq(want, regionDen(got)) {
				o.Violate("resize-is-slice", line, fmt.Sprintf("got %s denoting %s, want [%d,%d) of the spliced region = %s", regionSx(got), denSx(regionDen(got)), lo, hi, denSx(want)))
				continue
			}
			// through Locate on real residues
			ext, ok := safeSeq(func() gts.Sequence { return got.Locate(seq) })
			whole, ok2 := safeSeq(func() gts.Sequence { return r.Locate(seq) })
			if !ok || !ok2 {
				o.Violate("panic", line, "Locate")
			} else if string(ext.Bytes()) != string(whole.Bytes()[lo:hi]) {
				o.Violate("resize-is-slice-bytes", line, fmt.Sprintf("%q vs %q", ext.Bytes(), whole.Bytes()[lo:hi]))
			}
		} else if total > 0 {
			// offsets outside extend the first/last segment outward
			var want []dpos
			for j := lo; j < hi; j++ {
				switch {
				case j < 0:
					f := spliced[0]
					if f.c {
						want = append(want, dpos{f.p - j, true})
					} else {
						want = append(want, dpos{f.p + j, false})
					}
				case j >= total:
					l := spliced[total-1]
					if l.c {
						want = append(want, dpos{l.p - (j - total + 1), true})
					} else {
						want = append(want, dpos{l.p + (j - total + 1), false})
					}
				default:
					want = append(want, spliced[j])
				}
			}
			if !denEq(want, regionDen(got)) {
				if zeroLenEdge(r) {
					continue // no residue in the first/last segment to extend from
				}
				o.Violate("resize-outside-extends", line, fmt.Sprintf("got %s denoting %s, want %s", regionSx(got), denSx(regionDen(got)), denSx(want)))
			}
		}
	}
}

func flatSegs(r gts.Region) []gts.Segment {
	switch v := r.(type) {
	case gts.Segment:
		return []gts.Segment{v}
	case gts.Regions:
		var out []gts.Segment
		for _, e := range v {
			out = append(out, flatSegs(e)...)
		}
		return out
	}
	return nil
}

func zeroLenEdge(r gts.Region) bool {
	ss := flatSegs(r)
	if len(ss) == 0 {
		return true
	}
	return ss[0].Len() == 0 || ss[len(ss)-1].Len() == 0
}

// locators: 'X@M' denotes the regions of X each resized by M
func runLocators(o *Out) {
	var ff gts.FeatureSlice
	ff = ff.Insert(gts.Feature{Key: "source", Loc: gts.Range(0, 30), Props: gts.Props{{"organism", "x"}}})
	ff = ff.Insert(gts.Feature{Key: "gene", Loc: gts.Range(2, 10), Props: gts.Props{{"gene", "a"}}})
	ff = ff.Insert(gts.Feature{Key: "CDS", Loc: gts.Join(gts.Range(3, 6), gts.Range(9, 10), gts.Range(13, 17)), Props: gts.Props{{"gene", "a"}, {"product", "p q"}}})
	ff = ff.Insert(gts.Feature{Key: "CDS", Loc: gts.Complemented{Location: gts.Range(18, 24)}, Props: gts.Props{{"gene", "b"}}})
	ff = ff.Insert(gts.Feature{Key: "3'UTR", Loc: gts.Range(24, 28), Props: gts.Props{{"note", "utr"}}})
	seq := gts.New(nil, ff, letters(30))
	// every specifier (valid or not) with every modifier text (valid or not), bare,
	// as X@M, as @M and with a second '@': AsLocator and the located regions
	// against the model (locate_string)
	xs := []string{"5", "3..8", "8..3", "<3..8", "3..>8", "3^4", "complement(3..8)", "complement(5)", "complement(complement(3..8))",
		"join(1..2,4..5)", "CDS", "gene", "source", "3'UTR", "5'UTR", "-10_signal", "misc_feature", "/gene=a", "CDS/gene=b", "CDS/gene=a/product=p q",
		"/gene", "/", "", "x y", "12abc", "3..8x", "^", "$-3..$", "^+1..^+3", "/=a", "gene/", "CDS/gene=^a$"}
	ms := []string{"^", "$", "^+1..^+3", "^-2..$+2", "$-3..$", "^..$", "^+40", "$-40..$", "", "x", "^+", "^..", "..$", "$..^", "^+1..^+3@^", "5"}
	for _, x := range xs {
		res := o.Run("locator-bare", true, "locate", hx([]byte(x)), seqSx(seq))
		if res == "panic" {
			o.Violate("panic", "locate "+hx([]byte(x)), x)
		}
		for _, m := range ms {
			str := x + "@" + m
			res := o.Run("locator-composed", true, "locate", hx([]byte(str)), seqSx(seq))
			if res == "panic" {
				o.Violate("panic", "locate "+hx([]byte(str)), str)
			}
		}
	}
	mods := []string{"", "^", "$", "^-2..$+2", "^+1..^+3", "$-3..$", "^..$"}
	specs := []struct {
		s    string
		want func() gts.Regions
	}{
		{"5", func() gts.Regions { return gts.Regions{gts.Point(4).Region()} }},
		{"3..8", func() gts.Regions { return gts.Regions{gts.Range(2, 8).Region()} }},
		{"complement(3..8)", func() gts.Regions { return gts.Regions{gts.Range(2, 8).Complement().Region()} }},
		{"CDS", func() gts.Regions { return gts.Regions{ff[2].Loc.Region(), ff[3].Loc.Region()} }},
		{"CDS/gene=b", func() gts.Regions { return gts.Regions{ff[3].Loc.Region()} }},
		{"/gene=a", func() gts.Regions { return gts.Regions{ff[1].Loc.Region(), ff[2].Loc.Region()} }},
		{"3'UTR", func() gts.Regions { return gts.Regions{ff[4].Loc.Region()} }},
		{"misc_feature", func() gts.Regions { return gts.Regions{} }},
	}
	for _, sp := range specs {
		for _, ms := range mods {
			s := sp.s
			if ms != "" {
				s += "@" + ms
			}
			line := "locator " + hx([]byte(s))
			loc, err := gts.AsLocator(s)
			if err != nil {
				o.Violate("locator-rejected", line, err.Error())
				continue
			}
			var got gts.Regions
			ok := true
			func() {
				defer func() {
					if r := recover(); r != nil {
						ok = false
					}
				}()
				_ = loc(seq)
				_ = loc(gts.New(nil, ff[:3], letters(35)))
				got = loc(seq) // the third use of the same locator: same answer as the first
			}()
			if !ok {
				o.Violate("panic", line, "")
				continue
			}
			want := sp.want()
			if ms != "" {
				m, _ := gts.AsModifier(ms)
				for i := range want {
					want[i] = want[i].Resize(m)
				}
			}
			if len(got) != len(want) {
				o.Violate("locator-regions", line, fmt.Sprintf("got %s want %s", regionSx(got), regionSx(want)))
				continue
			}
			for i := range want {
				if !denEq(regionDen(got[i]), regionDen(want[i])) || (len(regionDen(want[i])) == 0 && !reflect.DeepEqual(flatSegs(got[i]), flatSegs(want[i]))) {
					o.Violate("locator-regions", line, fmt.Sprintf("got %s want %s", regionSx(got), regionSx(want)))
					break
				}
			}
		}
	}
	// bare modifier: the whole sequence
	for _, ms := range mods[1:] {
		loc, err := gts.AsLocator(ms)
		line := "locator " + hx([]byte(ms))
		if err != nil {
			o.Violate("locator-rejected", line, err.Error())
			continue
		}
		m, _ := gts.AsModifier(ms)
		want := gts.Segment{0, 30}.Resize(m)
		got := loc(seq)
		if len(got) != 1 || !reflect.DeepEqual(got[0], want) {
			o.Violate("locator-bare-modifier", line, fmt.Sprintf("got %s want %s", regionSx(got), regionSx(want)))
		}
	}
}

// ---------------------------------------------------------------- C09

func runC09(o *Out) {
	// exhaustive: all flat collections of up to 3 segments over [0,n], n=4 (3 for triples)
	var segs4, segs3 []gts.Segment
	for h := 0; h <= 4; h++ {
		for t := 0; t <= 4; t++ {
			segs4 = append(segs4, gts.Segment{h, t})
			if h <= 3 && t <= 3 {
				segs3 = append(segs3, gts.Segment{h, t})
			}
		}
	}
	// nothing selected: the inversion is everything
	for _, n := range []int{1, 4, 9} {
		checkMinimize(o, gts.Regions{}, n)
		checkMinimize(o, gts.Regions{gts.Regions{}, gts.Regions{gts.Regions{}}}, n)
	}
	for _, a := range segs4 {
		checkMinimize(o, gts.Regions{a}, 4)
		checkMinimize(o, a, 4)
		for _, b := range segs4 {
			checkMinimize(o, gts.Regions{a, b}, 4)
			checkMinimize(o, gts.Regions{gts.Regions{a}, gts.Regions{b, a}}, 4)
		}
	}
	for _, a := range segs3 {
		for _, b := range segs3 {
			for _, c := range segs3 {
				checkMinimize(o, gts.Regions{a, gts.Regions{b, c}}, 3)
			}
		}
	}
	// random: 1..6 regions x 1..4 segments, n up to 14
	nr := 3000
	if o.Tier == "thorough" {
		nr = 200000
	}
	for k := 0; k < nr; k++ {
		n := 1 + o.Rng.Intn(14)
		var rr gts.Regions
		for i := 1 + o.Rng.Intn(6); i > 0; i-- {
			var inner gts.Regions
			for j := 1 + o.Rng.Intn(4); j > 0; j-- {
				h, t := o.Rng.Intn(n+1), o.Rng.Intn(n+1)
				inner = append(inner, gts.Segment{h, t})
			}
			if len(inner) == 1 && o.Rng.Intn(2) == 0 {
				rr = append(rr, inner[0])
			} else {
				rr = append(rr, inner)
			}
		}
		checkMinimize(o, rr, n)
	}
}

func covered(ss []gts.Segment) map[int]bool {
	m := map[int]bool{}
	for _, s := range ss {
		a, b := s[0], s[1]
		if b < a {
			a, b = b, a
		}
		for x := a; x < b; x++ {
			m[x] = true
		}
	}
	return m
}

func checkMinimize(o *Out, r gts.Region, n int) {
	line := join("minimize", regionSx(r))
	res := o.Run("minimize", true, "minimize", regionSx(r))
	o.Run("invert_linear", true, "invert_linear", regionSx(r), itoa(n))
	resC := o.Run("invert_circular", true, "invert_circular", regionSx(r), itoa(n))
	if res == "panic" {
		o.Violate("panic", line, "")
		return
	}
	ss := gts.Minimize(r)
	// the answer belongs to the caller: minimizing (and inverting) something
	// else afterwards leaves it as it was
	{
		snap := append([]gts.Segment(nil), ss...)
		invL := gts.InvertLinear(r, n)
		snapL := regionsSx(invL)
		invC := gts.InvertCircular(r, n)
		snapC := regionsSx(invC)
		other := gts.Regions{gts.Segment{907, 911}, gts.Segment{903, 901}, gts.Segment{905, 909}, gts.Segment{900, 902}}
		_ = gts.Minimize(other)
		_ = gts.InvertLinear(other, 1000)
		_ = gts.InvertCircular(other, 1000)
		if !reflect.DeepEqual(snap, append([]gts.Segment(nil), ss...)) {
			o.Violate("minimize-result-overwritten-by-a-later-call", line, segsSx(ss)+" was "+segsSx(snap))
		}
		if regionsSx(invL) != snapL || regionsSx(invC) != snapC {
			o.Violate("invert-result-overwritten-by-a-later-call", line, regionsSx(invL)+" "+regionsSx(invC))
		}
		ss = snap
	}
	in := covered(flatSegs(r))
	outc := covered(ss)
	if !reflect.DeepEqual(in, outc) {
		o.Violate("minimize-cover", line, segsSx(ss))
	}
	for i, s := range ss {
		if s[1] < s[0] {
			o.Violate("minimize-not-forward", line, segsSx(ss))
		}
		if i > 0 && !(ss[i-1][1] < s[0]) {
			o.Violate("minimize-not-disjoint", line, segsSx(ss))
		}
	}
	// normal form: minimizing the answer again returns it unchanged
	{
		again := make(gts.Regions, len(ss))
		for i, s := range ss {
			again[i] = s
		}
		o.Run("minimize-again", len(ss) > 1, "minimize", regionSx(again))
		if ss2 := gts.Minimize(again); !(len(ss2) == 0 && len(ss) == 0) && !reflect.DeepEqual([]gts.Segment(ss2), []gts.Segment(ss)) {
			o.Violate("minimize-not-idempotent", join("minimize", regionSx(again)), segsSx(ss2))
		}
	}
	// order / orientation independence
	fs := flatSegs(r)
	if len(fs) > 1 {
		perm := make(gts.Regions, len(fs))
		for i, s := range fs {
			j := len(fs) - 1 - i
			if i%2 == 0 {
				perm[j] = gts.Segment{s[1], s[0]}
			} else {
				perm[j] = s
			}
		}
		if !reflect.DeepEqual(gts.Minimize(perm), ss) {
			o.Violate("minimize-order-dependent", line, segsSx(gts.Minimize(perm)))
		}
	}
	if resC == "panic" {
		o.Violate("panic", join("invert_circular", regionSx(r), itoa(n)), "InvertCircular")
		return
	}
	// linear inversion partitions [0,n)
	inv := gts.InvertLinear(r, n)
	cnt := map[int]int{}
	for x := range outc {
		cnt[x]++
	}
	var invSegs []gts.Segment
	for _, q := range inv {
		s := q.(gts.Segment)
		invSegs = append(invSegs, s)
		if !(s[0] < s[1]) {
			o.Violate("invert-empty-segment", line, regionsSx(inv))
		}
		for x := s[0]; x < s[1]; x++ {
			cnt[x]++
		}
	}
	for x := 0; x < n; x++ {
		if cnt[x] != 1 {
			o.Violate("invert-not-partition", join("invert_linear", regionSx(r), itoa(n)), fmt.Sprintf("position %d covered %d times: %s", x, cnt[x], regionsSx(inv)))
			break
		}
	}
	// circular inversion covers the same residues
	{
		if resC == "panic" {
			if len(inv) > 0 || true {
				o.Violate("panic", join("invert_circular", regionSx(r), itoa(n)), "")
			}
			return
		}
		circ := gts.InvertCircular(r, n)
		var cs []gts.Segment
		for _, q := range circ {
			cs = append(cs, flatSegs(q)...)
		}
		if !reflect.DeepEqual(covered(cs), covered(invSegs)) {
			o.Violate("circular-cover", join("invert_circular", regionSx(r), itoa(n)), regionsSx(circ))
		}
		// the two end pieces are merged across the origin
		if len(inv) >= 2 && len(ss) > 0 && ss[0][0] != 0 && ss[len(ss)-1][1] != n {
			first, ok := circ[0].(gts.Regions)
			if !ok || len(first) != 2 || !reflect.DeepEqual(first[0], inv[len(inv)-1]) || !reflect.DeepEqual(first[1], inv[0]) || len(circ) != len(inv)-1 {
				o.Violate("circular-not-merged", join("invert_circular", regionSx(r), itoa(n)), regionsSx(circ))
			}
		}
	}
	_ = sort.Ints
}

// gts extract <locators>: for every record of the stream, the regions the
// locators denote, in order, a region written once however often it is denoted
// (the same region, segment for segment: two different regions that merely begin,
// end and add up alike are both written), each as the residues it denotes.
func runC08Extract(o *Out) {
	if _, err := os.Stat(gtsBin); err != nil {
		return
	}
	rec := mkRecord(gts.Linear, 60)
	text := gbText(rec)
	parsed, ok := parseRecords(text)
	if !ok || len(parsed) != 1 {
		o.Violate("generated-record-unreadable", "mkRecord", "")
		return
	}
	plain := stripInfo(parsed[0])
	stream := append(append([]byte(nil), text...), text...)
	sb := newSandbox()
	defer sb.close()
	comp := map[byte]byte{'a': 't', 'c': 'g', 'g': 'c', 't': 'a'}
	cases := [][]string{{"tRNA"}, {"tRNA@^+1..$-1"}, {"tRNA@^-1..$+1"}, {"CDS"}, {"CDS@^..^+3"}, {"gene"}, {"mRNA"}, {"regulatory"}, {"regulatory@^+2"},
		{"misc_feature"}, {"13..20"}, {"13..20@^-2..$+3"}, {"complement(12..18)@$+2"}, {"tRNA", "CDS"}, {"gene", "mRNA", "tRNA"}, {"CDS", "CDS/gene=b"}, {"tRNA", "tRNA"},
		{"/gene=a"}, {"source"}, {"source", "gene"}, {"7"}, {"7@^-3..$+3"}}
	for _, locs := range cases {
		line := "extract " + strings.Join(locs, " ")
		var rr []gts.Region
		var seen []string
		bad := false
		for _, ls := range locs {
			one, ok := regionsOf(ls, plain)
			if !ok {
				bad = true
				break
			}
			for _, r := range one {
				k := regionSx(r)
				dup := false
				for _, s := range seen {
					dup = dup || s == k
				}
				if !dup {
					seen = append(seen, k)
					rr = append(rr, r)
				}
			}
		}
		if bad {
			continue
		}
		var want []string
		for _, r := range rr {
			if !(len(rr) == 1 || len(regionDen(r)) != gts.Len(plain)) {
				continue
			}
			var b []byte
			for _, d := range regionDen(r) {
				c := plain.Bytes()[d.p]
				if d.c {
					c = comp[c]
				}
				b = append(b, c)
			}
			want = append(want, string(b))
		}
		want = append(want, want...) // two records in the stream
		res := sb.run(append(append([]string{"extract"}, locs...), "-F", "fasta"), stream, false, true)
		got, ok := parseRecords(res.stdout)
		var have []string
		for _, g := range got {
			have = append(have, string(g.Bytes()))
		}
		o.Dist["cli-extract"]++
		if res.code != 0 || (!ok && len(res.stdout) > 0) || strings.Join(have, "|") != strings.Join(want, "|") {
			o.Violate("extract-writes-the-denoted-regions", line, fmt.Sprintf("exit %d, got %q want %q", res.code, have, want))
		}
	}
}
