package main

import (
	"bytes"
	"compress/flate"
	"crypto/sha1"
	"encoding/hex"
	"fmt"
	"io"
	"io/ioutil"
	"os"
	"path/filepath"
	"strings"

	"github.com/go-gts/gts/cmd/cache"
)

func init() {
	props["C13"] = runC13
	// cache_open hsz htab itab rsum dsum file: place the file under its leaf
	// name in a scratch directory and call the real cache.Open
	ops["cache_open"] = func(a []string) string {
		dir, err := ioutil.TempDir("", "verif-c13-")
		if err != nil {
			panic(err)
		}
		defer os.RemoveAll(dir)
		return implOpen(dir, unhx(a[3]), unhx(a[4]), unhx(a[5]))
	}
}

func sum(p []byte) []byte { h := sha1.Sum(p); return h[:] }

func leafName(rsum, dsum []byte) string {
	return hex.EncodeToString(sum(append(append([]byte(nil), rsum...), dsum...)))
}

func implOpen(dir string, rsum, dsum, file []byte) string {
	name := filepath.Join(dir, leafName(rsum, dsum))
	if err := ioutil.WriteFile(name, file, 0644); err != nil {
		panic(err)
	}
	defer os.Remove(name)
	f, err := cache.Open(dir, sha1.New(), rsum, dsum)
	if f != nil {
		defer f.Close()
	}
	if err != nil {
		return "none"
	}
	data, err := ioutil.ReadAll(f)
	if err != nil {
		return "readerr"
	}
	return "ok " + hx(data)
}

func inflateAll(p []byte) ([]byte, bool) {
	r := flate.NewReader(bytes.NewReader(p))
	d, err := ioutil.ReadAll(r)
	return d, err == nil
}

// caseLine builds the model's view of one Open: the digests and inflate
// results it needs are supplied as tables (sha1/flate are not modelled).
func caseLine(rsum, dsum, file []byte) string {
	var htab, itab []string
	if len(file) >= 60 {
		body := file[60:]
		htab = append(htab, fmt.Sprintf("(%s %s)", hx(body), hx(sum(body))))
		if d, ok := inflateAll(body); ok {
			itab = append(itab, fmt.Sprintf("(%s %s)", hx(body), hx(d)))
		}
	}
	return join("20", "("+strings.Join(htab, " ")+")", "("+strings.Join(itab, " ")+")", hx(rsum), hx(dsum), hx(file))
}

// an entry of several MiB (incompressible body): damage far into the body, at
// the very end and past the end must be noticed just like damage at the start.
// Implementation only: the files are too large for case lines.
func runC13Large(o *Out, dir string) {
	runC13LargeN(o, dir, 6<<20)
	runC13LargeN(o, dir, 20<<20)
}

// an incompressible entry of size bytes: flips, cuts and an appended byte far
// into the body, around every power-of-two MiB mark below the size
func runC13LargeN(o *Out, dir string, size int) {
	data := make([]byte, size)
	x := uint64(o.Seed)*2862933555777941757 + 3037000493 + uint64(size)
	for i := range data {
		x = x*6364136223846793005 + 1442695040888963407
		data[i] = byte(x >> 56)
	}
	name := fmt.Sprintf("large-%d", size>>20)
	rsum, dsum := sum([]byte("input:"+name)), sum([]byte("args:"+name))
	f, err := cache.Create(dir, sha1.New(), rsum, dsum)
	if err != nil {
		o.Violate("create-fails", name, err.Error())
		return
	}
	f.Write(data)
	if err := f.Close(); err != nil {
		o.Violate("close-fails", name, err.Error())
		return
	}
	path := filepath.Join(dir, leafName(rsum, dsum))
	file, err := ioutil.ReadFile(path)
	os.Remove(path)
	if err != nil || len(file) < 60+size-(1<<20) {
		o.Violate("file-missing", name, "")
		return
	}
	if res := implOpen(dir, rsum, dsum, file); res != "ok "+hx(data) {
		o.Violate("open-rejects-finished-large", name, res[:minInt(40, len(res))])
	}
	n := len(file)
	offs := []int{60, n - 2, n - 1, 60 + size - (1 << 19) + 12345}
	cuts := []int{n - 1, n - 4096}
	for mark := 1 << 20; mark < size; mark *= 2 {
		offs = append(offs, 60+mark-1, 60+mark, 60+mark+1)
		cuts = append(cuts, 60+mark, 60+mark+7)
	}
	for _, off := range offs {
		m := append([]byte(nil), file...)
		m[off] ^= 0x10
		if res := implOpen(dir, rsum, dsum, m); res != "none" {
			o.Violate("open-accepts-corrupt-large", fmt.Sprintf("%s entry (%d bytes), byte %d flipped", name, n, off), res[:minInt(40, len(res))])
		}
	}
	for _, k := range cuts {
		if res := implOpen(dir, rsum, dsum, file[:k]); res != "none" {
			o.Violate("open-accepts-truncated-large", fmt.Sprintf("%s entry cut to %d of %d bytes", name, k, n), res[:minInt(40, len(res))])
		}
	}
	if res := implOpen(dir, rsum, dsum, append(append([]byte(nil), file...), 0)); res != "none" {
		o.Violate("open-accepts-extended-large", name+" entry with one byte appended", res[:minInt(40, len(res))])
	}
}

// two (three) entries open at the same time, read in an order different from
// the order they were opened in: each yields exactly the bytes written to it
func runC13Interleaved(o *Out, dir string) {
	type ent struct {
		rsum, dsum, data []byte
	}
	var es []ent
	for i, body := range [][]byte{bytes.Repeat([]byte("first entry "), 500), []byte("second"), bytes.Repeat([]byte{7, 8, 9}, 30000)} {
		e := ent{sum([]byte(fmt.Sprintf("input:il%d", i))), sum([]byte(fmt.Sprintf("args:il%d", i))), body}
		f, err := cache.Create(dir, sha1.New(), e.rsum, e.dsum)
		if err != nil {
			o.Violate("create-fails", "interleaved", err.Error())
			return
		}
		f.Write(body)
		f.Close()
		es = append(es, e)
	}
	for _, order := range [][]int{{0, 1, 2}, {2, 1, 0}, {1, 2, 0}, {0, 2, 1}} {
		files := make([]*cache.File, len(es))
		ok := true
		for i, e := range es {
			f, err := cache.Open(dir, sha1.New(), e.rsum, e.dsum)
			if err != nil {
				o.Violate("open-rejects-finished-interleaved", fmt.Sprintf("entry %d", i), err.Error())
				ok = false
				break
			}
			files[i] = f
		}
		if ok {
			for _, i := range order {
				got, err := ioutil.ReadAll(files[i])
				if err != nil || !bytes.Equal(got, es[i].data) {
					o.Violate("interleaved-read", fmt.Sprintf("three entries open, read order %v", order),
						fmt.Sprintf("entry %d: %d bytes read, %d written, err %v", i, len(got), len(es[i].data), err))
				}
			}
		}
		for _, f := range files {
			if f != nil {
				f.Close()
			}
		}
	}
	for _, e := range es {
		os.Remove(filepath.Join(dir, leafName(e.rsum, e.dsum)))
	}
}

func runC13(o *Out) {
	dir, err := ioutil.TempDir("", "verif-c13-")
	if err != nil {
		panic(err)
	}
	defer os.RemoveAll(dir)
	bodies := map[string][]byte{
		"empty": {},
		"small": []byte("hello, cache"),
		"text":  bytes.Repeat([]byte("LOCUS       TEST 10 bp DNA linear UNA 01-JAN-2000\n"), 8),
	}
	order := []string{"empty", "small", "text"}
	if o.Tier == "thorough" {
		big := make([]byte, 200000)
		for i := range big {
			big[i] = byte(o.Rng.Intn(256))
		}
		bodies["multiblock"] = big
		order = append(order, "multiblock")
	}
	try := func(class string, rsum, dsum, file []byte, mustFail bool, want []byte) {
		args := splitArgs(caseLine(rsum, dsum, file))
		res := o.Run(class, true, "cache_open", args...)
		line := "cache_open " + caseLine(rsum, dsum, file)
		if len(line) > 600 {
			line = line[:600] + "..."
		}
		if mustFail && res != "none" {
			o.Violate("open-accepts-"+class, line, res[:minInt(80, len(res))])
		}
		if !mustFail && res != "ok "+hx(want) {
			o.Violate("open-rejects-"+class, line, res[:minInt(80, len(res))])
		}
	}
	for _, name := range order {
		data := bodies[name]
		rsum, dsum := sum([]byte("input:"+name)), sum([]byte("args:"+name))
		// the real writer
		f, err := cache.Create(dir, sha1.New(), rsum, dsum)
		if err != nil {
			o.Violate("create-fails", name, err.Error())
			continue
		}
		// several Write calls
		for i := 0; i < len(data); i += 70000 {
			e := i + 70000
			if e > len(data) {
				e = len(data)
			}
			if _, err := f.Write(data[i:e]); err != nil {
				o.Violate("write-fails", name, err.Error())
			}
		}
		if err := f.Close(); err != nil {
			o.Violate("close-fails", name, err.Error())
		}
		path := filepath.Join(dir, leafName(rsum, dsum))
		file, err := ioutil.ReadFile(path)
		if err != nil {
			o.Violate("file-missing", name, "the entry is not stored under hex(H(root++data))")
			continue
		}
		os.Remove(path)
		// structure of the finished file, digests recomputed here
		if len(file) < 60 || !bytes.Equal(file[:20], rsum) || !bytes.Equal(file[20:40], dsum) || !bytes.Equal(file[40:60], sum(file[60:])) {
			o.Violate("file-format", name, "finished file is not root ++ data ++ sha1(body) ++ body")
			continue
		}
		if d, ok := inflateAll(file[60:]); !ok || !bytes.Equal(d, data) {
			o.Violate("file-body", name, "body does not inflate to the written bytes")
		}
		try("finished-"+name, rsum, dsum, file, false, data)
		// wrong key: the same bytes looked up under another input / argument digest
		try("wrong-root", sum([]byte("other")), dsum, file, true, nil)
		try("wrong-data", rsum, sum([]byte("other")), file, true, nil)
		// single-byte corruption: every offset x three masks (sampled for big files)
		step := 1
		if len(file) > 3000 {
			step = len(file) / 600
		}
		for off := 0; off < len(file); off += step {
			for _, mask := range []byte{0x01, 0x80, 0xFF} {
				m := append([]byte(nil), file...)
				m[off] ^= mask
				try("corrupt-"+name, rsum, dsum, m, true, nil)
			}
		}
		// every prefix length
		for k := 0; k < len(file); k += step {
			try("truncated-"+name, rsum, dsum, file[:k], true, nil)
		}
		// appended tails
		for _, tail := range [][]byte{{0}, {0, 0}, {1, 2, 3}, []byte("\n")} {
			try("extended-"+name, rsum, dsum, append(append([]byte(nil), file...), tail...), true, nil)
		}
		// crash points, synthetic: placeholder header + every body prefix
		body := file[60:]
		zero := make([]byte, 60)
		for k := 0; k <= len(body); k += step {
			st := append(append([]byte(nil), zero...), body[:k]...)
			try("crash-body-"+name, rsum, dsum, st, true, nil)
		}
		// full body + every proper prefix of the final header over the placeholder
		for k := 0; k < 60; k++ {
			st := append(append(append([]byte(nil), file[:k]...), zero[k:]...), body...)
			same := bytes.Equal(st, file)
			try("crash-header-"+name, rsum, dsum, st, !same, data)
		}
		// crash point, real: abandon a writer before Close
		g, err := cache.Create(dir, sha1.New(), rsum, dsum)
		if err == nil {
			g.Write(data)
			onDisk, _ := ioutil.ReadFile(path)
			try("crash-abandoned-"+name, rsum, dsum, onDisk, true, nil)
			g.Close()
			os.Remove(path)
		}
	}
	runC13Large(o, dir)
	runC13Interleaved(o, dir)
	// a reader must not be confused by io.Copy semantics: sanity of ReadAll on big entries is
	// covered by finished-multiblock in the thorough tier
	_ = io.EOF
	// at the command line (cmd/gts/io.go): the root digest is the digest of the
	// input that was read, whether it arrives on standard input or as a file, so
	// an entry made for one input is never opened for another
	if _, err := os.Stat(gtsBin); err == nil {
		sb := newSandbox()
		defer sb.close()
		inA := []byte(">first\nAAAACCCC\n")
		inB := []byte(">second\nGGGGTTTTAA\n")
		type step struct {
			args  []string
			stdin []byte
			want  string
		}
		steps := []step{
			{[]string{"reverse"}, inA, "A"}, {[]string{"reverse"}, inB, "B"}, {[]string{"reverse"}, inA, "A"},
			{[]string{"complement"}, inB, "cB"}, {[]string{"complement"}, inA, "cA"},
		}
		ref := map[string]runResult{
			"A": sb.run([]string{"reverse"}, inA, false, true), "B": sb.run([]string{"reverse"}, inB, false, true),
			"cA": sb.run([]string{"complement"}, inA, false, true), "cB": sb.run([]string{"complement"}, inB, false, true),
		}
		if gbRec, err := ioutil.ReadFile("/repo/seqio/testdata/NC_001422_part.gb"); err == nil {
			auxDir, _ := ioutil.TempDir("", "verif-c13-aux-")
			scenarioStdinOffset(o, gbRec, auxDir)
			scenarioInterrupted(o, gbRec)
			os.RemoveAll(auxDir)
		}
		for i, st := range steps {
			o.Dist["cli-entry-for-other-input"]++
			got := sb.run(st.args, st.stdin, false, false)
			if !sameResult(got, ref[st.want]) {
				o.Violate("entry-opened-for-a-different-input", fmt.Sprintf("gts %v step %d", st.args, i),
					fmt.Sprintf("got %q want %q", got.stdout, ref[st.want].stdout))
			}
		}
	}
}

func minInt(a, b int) int {
	if a < b {
		return a
	}
	return b
}
