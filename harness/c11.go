package main

import (
	"bytes"
	"fmt"
	"strings"

	"github.com/go-gts/gts"
	"github.com/go-gts/gts/seqio"
)

func init() {
	props["C11"] = runC11
	// alias_<op>: run the operation on arguments laid out in one enclosing
	// buffer / table with the given spare capacity and report whether any
	// argument view or the enclosing storage changed
	ops["alias"] = func(a []string) string {
		return aliasCase(a[0], atoi(a[1]), atoi(a[2]), atoi(a[3]), atoi(a[4]))
	}
	ops["alias_bytes"] = func(a []string) string {
		return aliasBytes(atoi(a[0]), atoi(a[2]), atoi(a[3]), a[4] == "1", unhx(a[1]))
	}
	ops["alias_table"] = func(a []string) string { return aliasTable(atoi(a[0]), atoi(a[1]), atoi(a[2])) }
	// alias_repair <variant>: Repair on a table whose fragments are multi-part
	// locations held in slices of the caller (the merge must not write into them)
	ops["alias_repair"] = func(a []string) string { return aliasRepair(atoi(a[0])) }
}

// layout: one buffer  [pad | host(hl) | guest(gl) | spare...]: host and guest
// are adjacent sub-slices of the same array, both with spare capacity (cap
// runs to the end of the buffer); tables are slices with `tspare` spare slots
func mkArgs(hl, gl, spare, tspare int) (buf []byte, host, guest gts.Sequence, htab, gtab gts.FeatureSlice) {
	buf = make([]byte, 2+hl+gl+spare)
	for i := range buf {
		buf[i] = "acgtacgtnn"[i%10]
	}
	hb := buf[2 : 2+hl]
	gb := buf[2+hl : 2+hl+gl]
	if spare == 0 {
		hb = buf[2 : 2+hl : 2+hl]
		gb = buf[2+hl : 2+hl+gl : 2+hl+gl]
	}
	if spare == 8 {
		// the guest lies before the host, so the bytes after the host are not the guest's
		gb = buf[2 : 2+gl]
		hb = buf[2+gl : 2+gl+hl]
	}
	hstore := make([]gts.Feature, 0, 3+tspare)
	hstore = append(hstore,
		gts.Feature{Key: "source", Loc: sourceLoc(hl, tspare), Props: gts.Props{{"organism", "x"}}},
		gts.Feature{Key: "gene", Loc: gts.Join(gts.Range(0, 1), gts.PartialRange(2, hl, gts.Partial3)), Props: gts.Props{{"gene", "a", "b"}}},
		gts.Feature{Key: "misc", Loc: gts.Complemented{Location: gts.Order(gts.Point(1), gts.Range(2, 3))}, Props: gts.Props{{"note", "n"}}})
	gstore := make([]gts.Feature, 0, 1+tspare)
	if gl > 0 {
		gstore = append(gstore, gts.Feature{Key: "gf", Loc: gts.Join(gts.Range(0, 1), gts.Point(gl-1)), Props: gts.Props{{"note", "g"}}})
	}
	htab, gtab = hstore, gstore
	host = gts.New("host info", htab, hb)
	guest = gts.New("guest info", gtab, gb)
	curGB = mkGB(host)
	return
}

// the source feature is a plain range, or (for odd table spare) a join of
// partial ranges, which Slice completes (asComplete)
func sourceLoc(hl, tspare int) gts.Location {
	if tspare%2 == 1 && hl >= 4 {
		return gts.Join(gts.PartialRange(0, 2, gts.Partial5), gts.PartialRange(3, hl, gts.Partial3))
	}
	return gts.Range(0, hl)
}

func snapshot(buf []byte, host, guest gts.Sequence, htab, gtab gts.FeatureSlice) string {
	// views of the arguments, the whole enclosing buffer and the spare slots of the tables
	refs := curGB.Fields.References
	gbv := fmt.Sprintf("%v|%v|%s|%s", curGB.Fields, refs[:cap(refs)], featsSx(curGB.Table), curGB.Origin.String())
	return fmt.Sprintf("%x|%s|%s|%x|%x|%v|%v|%s|%s|%s", buf, featsSx(host.Features()), featsSx(guest.Features()),
		host.Bytes(), guest.Bytes(), host.Info(), guest.Info(),
		featsSx(htab[:cap(htab)]), featsSx(gtab[:cap(gtab)]), gbv)
}

var aliasOps = []string{"insert@0", "insert@end", "embed@0", "embed@end", "delete@0", "delete@all", "erase@all", "slice@all", "slice@head", "slice@tail",
	"rotate@0", "rotate@len", "gb:slice", "gb:slice@all", "gb:slice@tail", "gb:insert@end", "gb:delete", "gb:reverse", "gb:rotate", "gb:concat",
	"insert", "embed", "delete", "erase", "slice", "slicewrap", "concat", "concat3", "reverse", "rotate", "complement",
	"transcribe", "withbytes", "withfeatures", "withinfo", "repair", "filter", "fsinsert", "locate", "search", "match"}

func runAliasOp(op string, host, guest gts.Sequence, hl, gl int) (res gts.Sequence) {
	defer func() {
		if r := recover(); r != nil {
			res = gts.New("PANIC", nil, nil)
		}
	}()
	if strings.HasPrefix(op, "gb:") {
		// the same operations on a GenBank record: metadata with REFERENCE entries
		op = op[3:]
		host = gbHost(host)
	}
	switch op {
	case "insert@0":
		return gts.Insert(host, 0, guest)
	case "insert@end":
		return gts.Insert(host, hl, guest)
	case "embed@0":
		return gts.Embed(host, 0, guest)
	case "embed@end":
		return gts.Embed(host, hl, guest)
	case "delete@0":
		return gts.Delete(host, 0, 1)
	case "delete@all":
		return gts.Delete(host, 0, hl)
	case "erase@all":
		return gts.Erase(host, 0, hl)
	case "slice@all":
		return gts.Slice(host, 0, hl)
	case "slice@head":
		return gts.Slice(host, 0, hl/2)
	case "slice@tail":
		return gts.Slice(host, hl/2, hl)
	case "rotate@0":
		return gts.Rotate(host, 0)
	case "rotate@len":
		return gts.Rotate(host, hl)
	case "insert":
		return gts.Insert(host, hl/2, guest)
	case "embed":
		return gts.Embed(host, hl/2, guest)
	case "delete":
		return gts.Delete(host, 1, hl/2)
	case "erase":
		return gts.Erase(host, 1, hl/2)
	case "slice":
		return gts.Slice(host, 1, hl-1)
	case "slicewrap":
		return gts.Slice(host, hl-1, 2)
	case "concat":
		return gts.Concat(host, guest)
	case "concat3":
		return gts.Concat(host, guest, host)
	case "reverse":
		return gts.Reverse(host)
	case "rotate":
		return gts.Rotate(host, 2)
	case "complement":
		return gts.Complement(host)
	case "transcribe":
		return gts.Transcribe(host)
	case "withbytes":
		return gts.WithBytes(host, []byte("zz"))
	case "withfeatures":
		return gts.WithFeatures(host, nil)
	case "withinfo":
		return gts.WithInfo(host, "other")
	case "repair":
		return gts.WithFeatures(host, gts.Repair(host.Features()))
	case "filter":
		return gts.WithFeatures(host, host.Features().Filter(gts.Key("gene")))
	case "fsinsert":
		return gts.WithFeatures(host, host.Features().Insert(gts.Feature{Key: "new", Loc: gts.Point(0)}))
	case "locate":
		return host.Features()[1].Loc.Region().Locate(host)
	case "search":
		gts.Search(host, guest)
		return host
	case "match":
		gts.Match(host, guest)
		return host
	}
	panic("unknown op " + op)
}

// curGB is the GenBank view of the current case's host: built by mkArgs, part
// of every snapshot, used by the gb: operations.
var curGB seqio.GenBank

func mkGB(host gts.Sequence) seqio.GenBank {
	n := gts.Len(host)
	refs := make([]seqio.Reference, 3, 5)
	refs[0] = seqio.Reference{Number: 1, Info: fmt.Sprintf("(bases 1 to %d)", n), Title: "whole"}
	refs[1] = seqio.Reference{Number: 2, Info: "(bases 1 to 1)", Title: "first base"}
	refs[2] = seqio.Reference{Number: 3, Info: fmt.Sprintf("(bases %d to %d; 1 to 2)", n-1, n), Title: "last bases"}
	return seqio.GenBank{
		Fields: seqio.GenBankFields{LocusName: "HOST", Molecule: gts.DNA, Topology: gts.Circular, Accession: "A1", Version: "A1.1",
			References: refs, Keywords: []string{"k1", "k2"}, Comments: []string{"c"}},
		Table:  host.Features(),
		Origin: seqio.NewOrigin(host.Bytes()),
	}
}

func gbHost(host gts.Sequence) gts.Sequence { return curGB }

func aliasCase(op string, hl, gl, spare, tspare int) string {
	buf, host, guest, htab, gtab := mkArgs(hl, gl, spare, tspare)
	before := snapshot(buf, host, guest, htab, gtab)
	r1 := runAliasOp(op, host, guest, hl, gl)
	s1 := seqSx(r1)
	after := snapshot(buf, host, guest, htab, gtab)
	if after != before {
		return "changed"
	}
	// the same value can be fed to further operations with the same results
	r2 := runAliasOp(op, host, guest, hl, gl)
	if seqSx(r2) != s1 {
		return "unstable"
	}
	if seqSx(r1) != s1 {
		return "result-changed"
	}
	return "same"
}

func aliasBytes(op, hl, gl int, spare bool, buf []byte) string {
	hb := buf[2 : 2+hl]
	gb := buf[2+hl : 2+hl+gl]
	if !spare {
		hb = buf[2 : 2+hl : 2+hl]
		gb = buf[2+hl : 2+hl+gl : 2+hl+gl]
	}
	if op == 5 || op == 6 {
		// the guest lies before the host: what follows the host is not the guest
		gb = buf[2 : 2+gl]
		hb = buf[2+gl : 2+gl+hl]
		if !spare {
			gb = buf[2 : 2+gl : 2+gl]
			hb = buf[2+gl : 2+gl+hl : 2+gl+hl]
		}
	}
	host, guest := gts.New(nil, nil, hb), gts.New(nil, nil, gb)
	var r gts.Sequence
	switch op {
	case 0:
		r = gts.Insert(host, hl/2, guest)
	case 3, 5:
		r = gts.Insert(host, hl, guest)
	case 4:
		r = gts.Insert(host, 0, guest)
	case 1:
		r = gts.Rotate(host, 2)
	default:
		r = gts.Concat(host, guest)
	}
	return join("ok", hx(buf), hx(r.Bytes()))
}

func aliasRepair(variant int) string {
	mk := func() []gts.Feature {
		props := gts.Props{{"gene", "a"}}
		leftParts := make([]gts.Location, 2, 4)
		leftParts[0], leftParts[1] = gts.Range(0, 10), gts.PartialRange(20, 30, gts.Partial3)
		var left gts.Location = gts.Joined(leftParts)
		if variant%2 == 1 {
			left = gts.Ordered(leftParts)
		}
		var right gts.Location = gts.PartialRange(30, 40, gts.Partial5)
		if variant >= 2 {
			rp := make([]gts.Location, 2, 4)
			rp[0], rp[1] = gts.PartialRange(30, 40, gts.Partial5), gts.Range(50, 60)
			right = gts.Joined(rp)
		}
		if variant >= 4 {
			left, right = gts.Complemented{Location: right}, gts.Complemented{Location: left}
		}
		tab := make([]gts.Feature, 0, 6)
		tab = append(tab, gts.Feature{Key: "source", Loc: gts.Range(0, 60), Props: gts.Props{{"organism", "x"}}},
			gts.Feature{Key: "gene", Loc: left, Props: props}, gts.Feature{Key: "gene", Loc: right, Props: props})
		return tab
	}
	tab := mk()
	before := featsSx(tab[:cap(tab)][:len(tab)])
	r1 := featsSx(gts.Repair(tab))
	if featsSx(tab) != before {
		return "changed"
	}
	if featsSx(gts.Repair(tab)) != r1 {
		return "unstable"
	}
	if fresh := featsSx(gts.Repair(mk())); fresh != r1 {
		return "differs-from-fresh"
	}
	return "same"
}

func aliasTable(n, spare, i int) string {
	store := make([]gts.Feature, n, n+spare)
	for k := 0; k < n; k++ {
		store[k] = gts.Feature{Key: fmt.Sprintf("%d", k), Loc: gts.Point(2 * k)}
	}
	full := store[:cap(store)]
	for k := n; k < len(full); k++ {
		full[k] = gts.Feature{Key: "-1", Loc: gts.Point(0)}
	}
	res := gts.FeatureSlice(store).Insert(gts.Feature{Key: "100", Loc: gts.Point(2*i - 1)})
	keys := func(ff []gts.Feature) string {
		s := "("
		for k, f := range ff {
			if k > 0 {
				s += " "
			}
			s += f.Key
		}
		return s + ")"
	}
	return join("ok", keys(full), keys(res))
}

func runC11(o *Out) {
	for op := 0; op <= 6; op++ {
		for hl := 2; hl <= 6; hl++ {
			for gl := 0; gl <= 3; gl++ {
				for _, spare := range []int{0, 1, 5} {
					buf := make([]byte, 2+hl+gl+spare)
					for i := range buf {
						buf[i] = "abcdefghijklmnopqrstuvwxyz"[i%26]
					}
					o.Run("alias-bytes", spare > 0, "alias_bytes", itoa(op), hx(buf), itoa(hl), itoa(gl), b2s(spare > 0))
				}
			}
		}
	}
	for n := 0; n <= 5; n++ {
		for _, spare := range []int{0, 1, 3} {
			for i := 0; i <= n; i++ {
				o.Run("alias-table", spare > 0, "alias_table", itoa(n), itoa(spare), itoa(i))
			}
		}
	}
	for v := 0; v < 6; v++ {
		if res := o.Run("alias-repair", true, "alias_repair", itoa(v)); res != "same" {
			o.Violate("argument-modified", join("alias_repair", itoa(v)), res)
		}
	}
	for _, op := range aliasOps {
		for hl := 4; hl <= 6; hl++ {
			for gl := 0; gl <= 2; gl++ {
				for _, spare := range []int{0, 1, 8} {
					for _, tspare := range []int{0, 1, 4} {
						res := o.Run("alias-"+op, spare > 0 || tspare > 0, "alias", op, itoa(hl), itoa(gl), itoa(spare), itoa(tspare))
						if res != "same" {
							o.Violate("argument-modified", join("alias", op, itoa(hl), itoa(gl), itoa(spare), itoa(tspare)), res)
						}
					}
				}
			}
		}
	}
	// sequences of 1..4 operations applied to the same original value
	nseq := 400
	if o.Tier == "thorough" {
		nseq = 20000
	}
	for k := 0; k < nseq; k++ {
		hl, gl := 4+o.Rng.Intn(3), o.Rng.Intn(3)
		spare, tspare := []int{0, 1, 8}[o.Rng.Intn(3)], []int{0, 1, 4}[o.Rng.Intn(3)]
		buf, host, guest, htab, gtab := mkArgs(hl, gl, spare, tspare)
		before := snapshot(buf, host, guest, htab, gtab)
		n := 1 + o.Rng.Intn(4)
		var names []string
		var firsts []string
		for i := 0; i < n; i++ {
			op := aliasOps[o.Rng.Intn(len(aliasOps))]
			names = append(names, op)
			firsts = append(firsts, seqSx(runAliasOp(op, host, guest, hl, gl)))
		}
		line := fmt.Sprintf("alias_seq (%s) %d %d %d %d", join(names...), hl, gl, spare, tspare)
		if snapshot(buf, host, guest, htab, gtab) != before {
			o.Case("op-sequence", true, line, "changed")
			o.Violate("argument-modified-by-sequence", line, "")
			continue
		}
		o.Case("op-sequence", true, line, "same")
		for i, op := range names {
			if seqSx(runAliasOp(op, host, guest, hl, gl)) != firsts[i] {
				o.Violate("result-depends-on-history", line, op)
			}
		}
	}
	// GenBank records: Origin.Bytes converts its buffer in place; the accessors must agree before and after
	p := bytes.Repeat([]byte("acgtn"), 30)
	or := seqio.NewOrigin(p)
	l0, s0 := or.Len(), or.String()
	b := or.Bytes()
	if or.Len() != l0 || or.String() != s0 || !bytes.Equal(b, p) || !bytes.Equal(or.Bytes(), p) {
		o.Violate("origin-accessors-disagree", "origin", "")
	}
}
