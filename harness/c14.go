package main

import (
	"bytes"
	"crypto/sha1"
	"fmt"
	"io"
	"io/ioutil"
	"os"
	"os/exec"
	"path/filepath"
	"sort"
	"strings"
	"syscall"
	"time"

	"github.com/go-gts/gts/seqio"
)

func init() {
	props["C14"] = runC14
	// cache_hist ((input payload ok tofile) ...): replay the abstract history
	// with the real binary is not possible from a case line alone; the
	// implementation result is recorded by the generator. Replays re-run the
	// generator's scenario by name.
	ops["cache_hist"] = func(a []string) string { return "see-scenario" }
}

const gtsBin = "/verif/build/bin/gts"

type runResult struct {
	stdout []byte
	file   []byte
	code   int
}

type sandbox struct {
	dir string
}

func newSandbox() *sandbox {
	d, err := ioutil.TempDir("", "verif-c14-")
	if err != nil {
		panic(err)
	}
	for _, s := range []string{"cache", "home", "tmp", "out"} {
		os.MkdirAll(filepath.Join(d, s), 0755)
	}
	return &sandbox{d}
}

func (s *sandbox) close() { os.RemoveAll(s.dir) }

func (s *sandbox) entries() int {
	fs, _ := ioutil.ReadDir(filepath.Join(s.dir, "cache", "gts-cache"))
	return len(fs)
}

// run the binary: args, stdin bytes, optional -o file
func (s *sandbox) run(args []string, stdin []byte, tofile bool, nocache bool) runResult {
	return s.runFrom(args, bytes.NewReader(stdin), tofile, nocache)
}

// runFrom: standard input is any reader; an *os.File is handed to the child as
// its descriptor 0 as it is (same open file, same offset)
func (s *sandbox) runFrom(args []string, stdin io.Reader, tofile bool, nocache bool) runResult {
	a := append([]string(nil), args...)
	if nocache {
		a = append(a, "--no-cache")
	}
	out := filepath.Join(s.dir, "out", "result.gb")
	if tofile {
		os.Remove(out)
		a = append(a, "-o", out)
	}
	cmd := exec.Command(gtsBin, a...)
	cmd.Env = []string{"XDG_CACHE_HOME=" + filepath.Join(s.dir, "cache"), "HOME=" + filepath.Join(s.dir, "home"),
		"TMPDIR=" + filepath.Join(s.dir, "tmp"), "PATH=/usr/bin:/bin"}
	cmd.Stdin = stdin
	var so, se bytes.Buffer
	cmd.Stdout, cmd.Stderr = &so, &se
	err := cmd.Run()
	code := 0
	if err != nil {
		if ee, ok := err.(*exec.ExitError); ok {
			code = ee.ExitCode()
		} else {
			code = -1
		}
	}
	r := runResult{stdout: so.Bytes(), code: code}
	if tofile {
		r.file, _ = ioutil.ReadFile(out)
	}
	return r
}

func sameResult(a, b runResult) bool {
	return a.code == b.code && bytes.Equal(a.stdout, b.stdout) && bytes.Equal(a.file, b.file)
}

type invocation struct {
	name  string   // subcommand
	args  []string // full argument vector (subcommand first)
	input string   // name of the primary input
	keyID string   // canonical rendering of the options that should select the entry
}

// every version of a secondary input file carries the same modification time
var fixedTime = time.Unix(1600000000, 0)

func runC14(o *Out) {
	if _, err := os.Stat(gtsBin); err != nil {
		panic("gts binary not built: " + gtsBin)
	}
	td := "/repo/seqio/testdata/"
	gb, _ := ioutil.ReadFile(td + "NC_001422_part.gb")
	full, _ := ioutil.ReadFile(td + "NC_001422.gb")
	fa, _ := ioutil.ReadFile(td + "NC_001422_part.fasta")
	inputs := map[string][]byte{
		"part.gb":  gb,
		"two.gb":   append(append([]byte(nil), gb...), gb...),
		"part.fa":  fa,
		"trunc.gb": full[:3000],
		"garbage":  []byte("this is not a sequence file\n"),
	}
	inputOrder := []string{"part.gb", "two.gb", "part.fa", "trunc.gb", "garbage"}
	if o.Tier == "thorough" {
		inputs["full.gb"] = full
		inputOrder = append(inputOrder, "full.gb")
	}
	// secondary inputs live in a directory of their own
	aux, _ := ioutil.TempDir("", "verif-c14-aux-")
	defer os.RemoveAll(aux)
	write := func(name string, data []byte) string {
		p := filepath.Join(aux, name)
		ioutil.WriteFile(p, data, 0644)
		return p
	}
	guest1 := write("guest1.fa", []byte(">g1\nacgtacgt\n"))
	guest2 := write("guest2.fa", []byte(">g2\nttttgggg\n"))
	tab1 := write("tab1.txt", []byte("     misc_feature    1..10\n                     /note=\"one\"\n"))
	tab2 := write("tab2.txt", []byte("     misc_feature    5..20\n                     /note=\"two\"\n"))

	type cfg struct {
		args []string
		key  string
	}
	mk := func(parts ...string) cfg { return cfg{parts, strings.Join(parts, " ")} }
	// option combinations per cached subcommand
	var cfgs []cfg
	for _, f := range [][]string{{}, {"-F", "fasta"}} {
		add := func(parts ...string) { cfgs = append(cfgs, mk(append(parts, f...)...)) }
		add("clear")
		add("complement")
		add("reverse")
		add("repair")
		for _, c := range [][]string{{}, {"-c"}} {
			add(append([]string{"join"}, c...)...)
		}
		for _, r := range [][]string{{}, {"-r"}} {
			add(append([]string{"sort"}, r...)...)
		}
		for _, e := range [][]string{{}, {"-e"}} {
			for _, loc := range []string{"10..20", "CDS"} {
				add(append([]string{"delete", loc}, e...)...)
			}
			for _, g := range []string{guest1, guest2, "@ccc"} {
				add(append([]string{"insert", "^", g}, e...)...)
			}
		}
		for _, v := range [][]string{{}, {"-v"}} {
			add(append([]string{"extract", "CDS"}, v...)...)
			add(append([]string{"extract", "10..40", "gene"}, v...)...)
			for _, s := range [][]string{{}, {"-s", "forward"}, {"-s", "reverse"}} {
				add(append(append([]string{"select", "CDS"}, v...), s...)...)
			}
		}
		add("rotate", "30")
		add("rotate", "CDS")
		add("split", "40")
		add("split", "CDS")
		add("define", "misc_feature", "3..9")
		add("define", "misc_feature", "3..9", "-q", "note=x")
		add("define", "gene", "complement(3..9)", "-q", "note=x", "-q", "gene=y")
		add("annotate", tab1)
		add("annotate", tab2)
		for _, ff := range [][]string{{}, {"-f"}} {
			add(append([]string{"pick", "1"}, ff...)...)
			add(append([]string{"pick", "2-"}, ff...)...)
		}
		for _, e := range [][]string{{}, {"-e"}, {"--no-complement"}, {"-e", "--no-complement"}} {
			add(append([]string{"search", "@acgt"}, e...)...)
		}
		add("search", "@tttt", "-k", "primer", "-q", "note=p")
	}
	// commands without -F
	bools := []string{"-H", "--source", "-I", "-K", "-L", "--empty"}
	for mask := 0; mask < 1<<len(bools); mask += 1 {
		if o.Tier != "thorough" && mask%5 != 0 && mask != (1<<len(bools))-1 {
			continue
		}
		args := []string{"query"}
		for i, b := range bools {
			if mask&(1<<i) != 0 {
				args = append(args, b)
			}
		}
		cfgs = append(cfgs, mk(args...))
	}
	// repeated options: the order of the values is part of what is asked for
	cfgs = append(cfgs, mk("query", "-n", "product", "-n", "gene"), mk("query", "-n", "locus_tag", "-n", "gene", "-n", "product"),
		mk("query", "-n", "product", "-n", "locus_tag", "-n", "gene"),
		mk("define", "gene", "complement(3..9)", "-q", "gene=y", "-q", "note=x"),
		mk("search", "@tttt", "-k", "primer", "-q", "note=p", "-q", "label=q"), mk("search", "@tttt", "-k", "primer", "-q", "label=q", "-q", "note=p"),
		mk("extract", "gene", "10..40"),
		// one value that contains a blank vs two values: never the same request
		mk("query", "-n", "gene product"), mk("query", "-n", "product gene"),
		mk("define", "gene", "complement(3..9)", "-q", "gene=y note=x"), mk("define", "gene", "complement(3..9)", "-q", "gene=y", "-q", "note=x", "-q", "z"),
		mk("search", "@tttt", "-k", "primer", "-q", "note=p label=q"), mk("extract", "gene 10..40"), mk("extract", "10..40", "gene"))
	cfgs = append(cfgs, mk("query", "-n", "gene"), mk("query", "-n", "gene", "-n", "product"), mk("query", "-d", ","), mk("query", "-t", ";"),
		mk("summary"), mk("summary", "-F"), mk("summary", "-Q"), mk("summary", "-F", "-Q"))

	// infix reads the GUEST from stdin and takes the host as an argument
	hostFile := write("host.gb", gb)
	cfgs = append(cfgs, mk("infix", "^", hostFile), mk("infix", "^", hostFile, "-e"), mk("infix", "10", hostFile))

	// reference results without cache
	ref := map[string]runResult{}
	refFile := map[string]runResult{}
	refSB := newSandbox()
	for _, c := range cfgs {
		for _, in := range inputOrder {
			if o.Tier != "thorough" && (in == "two.gb" || in == "garbage") && len(c.args) > 2 {
				continue
			}
			ref[c.key+"|"+in] = refSB.run(c.args, inputs[in], false, true)
			refFile[c.key+"|"+in] = refSB.run(c.args, inputs[in], true, true)
		}
	}
	refSB.close()

	// one shared cache directory for everything: cold pass, then warm pass,
	// then a pass writing to -o files (hits delete their entry), then again
	sb := newSandbox()
	defer sb.close()
	type step struct {
		c      cfg
		in     string
		tofile bool
	}
	var hist []step
	keys := make([]string, 0, len(ref))
	for k := range ref {
		keys = append(keys, k)
	}
	sort.Strings(keys)
	byKey := map[string]cfg{}
	for _, c := range cfgs {
		byKey[c.key] = c
	}
	for pass := 0; pass < 4; pass++ {
		order := append([]string(nil), keys...)
		if pass%2 == 1 {
			// a different interleaving
			for i, j := 0, len(order)-1; i < j; i, j = i+1, j-1 {
				order[i], order[j] = order[j], order[i]
			}
		}
		for _, k := range order {
			parts := strings.SplitN(k, "|", 2)
			hist = append(hist, step{byKey[parts[0]], parts[1], pass >= 2})
		}
	}
	// ids for the model: digest of the input, digest of (command line minus neutral options)
	inID := map[string]int{}
	keyID := map[string]int{}
	var histSx []string
	var counts []string
	for _, st := range hist {
		k := st.c.key + "|" + st.in
		want := ref[k]
		got := sb.run(st.c.args, inputs[st.in], st.tofile, false)
		line := fmt.Sprintf("gts %s < %s (tofile=%v)", st.c.key, st.in, st.tofile)
		cmp := want
		if st.tofile {
			cmp = refFile[k]
			want = cmp
			if cmp.code != 0 {
				cmp.file = got.file // the partial output of a failing run is not compared
			}
		}
		if got.code != cmp.code || !bytes.Equal(got.stdout, cmp.stdout) || (st.tofile && !bytes.Equal(got.file, cmp.file)) {
			o.Violate("cached-run-differs", line, fmt.Sprintf("exit %d vs %d, stdout %d vs %d bytes, sha1 %x vs %x", got.code, cmp.code, len(got.stdout), len(cmp.stdout), sha1.Sum(got.stdout), sha1.Sum(cmp.stdout)))
		}
		if _, ok := inID[st.in]; !ok {
			inID[st.in] = len(inID)
		}
		// the file type is part of the payload: -o x.gb selects GenBank output; commands
		// whose -o is only a destination (query, summary) do not key it
		kk := st.c.key
		hasF := false
		for _, a := range st.c.args {
			if a == "-F" && st.c.args[0] != "summary" {
				hasF = true // an explicit format overrides the type implied by -o
			}
		}
		if st.tofile && !hasF && st.c.args[0] != "query" && st.c.args[0] != "summary" {
			kk += " <filetype gb>"
		}
		if _, ok := keyID[kk]; !ok {
			keyID[kk] = len(keyID)
		}
		histSx = append(histSx, fmt.Sprintf("(%d %d %s %s)", inID[st.in], keyID[kk], b2s(want.code == 0), b2s(st.tofile)))
		counts = append(counts, itoa(sb.entries()))
	}
	// the partition of invocations into cache entries, as the model predicts it
	o.Case("history", true, "cache_hist ("+strings.Join(histSx, " ")+")", "ok ("+strings.Join(counts, " ")+")")
	// secondary inputs edited in place: same path, same command line, new
	// contents; and the primary input given as a file path or on stdin
	{
		s3 := newSandbox()
		mutable := filepath.Join(aux, "mutable")
		type sec struct {
			name     string
			args     []string
			a, b     []byte
			stdin    []byte
			stdinAlt []byte
		}
		// three oligomers that do occur in the record, at different places
		oligoA, oligoB, oligoC := "acgt", "ttga", "ccgg"
		if sc := seqio.NewAutoScanner(bytes.NewReader(gb)); sc.Scan() {
			res := strings.ToLower(string(sc.Value().Bytes()))
			if len(res) >= 60 {
				oligoA, oligoB, oligoC = res[3:11], res[20:28], res[41:49]
			}
		}
		gbAnnot := append([]byte(nil), gb...)
		for _, q := range []string{"/gene=\"", "/product=\"", "/note=\""} {
			if i := bytes.Index(gbAnnot, []byte(q)); i >= 0 {
				gbAnnot[i+len(q)] = 'Z'
				break
			}
		}
		tabA := []byte("     misc_feature    1..10\n                     /note=\"one\"\n")
		tabB := []byte("     misc_feature    5..20\n                     /note=\"two\"\n")
		secs := []sec{
			{"insert-guest-file", []string{"insert", "^", mutable}, []byte(">g\naaaaaaaa\n"), []byte(">g\ncccccccc\n"), gb, nil},
			{"insert-guest-file-embed", []string{"insert", "^", mutable, "-e"}, []byte(">g\naaaaaaaa\n"), []byte(">g\ncccccccc\n"), gb, nil},
			{"infix-host-file", []string{"infix", "^", mutable}, gb, append(append([]byte(nil), gb...), gb...), []byte(">g\nacgt\n"), nil},
			{"annotate-table-file", []string{"annotate", mutable}, tabA, tabB, gb, nil},
			{"search-query-file", []string{"search", mutable}, []byte(">q\nacgt\n"), []byte(">q\ntttt\n"), gb, nil},
			// contents that agree on what a shortcut key would look at (the residues,
			// their total length, the first record) and still give different output
			{"search-query-records", []string{"search", mutable}, []byte(">q\n" + oligoA + "\n>r\n" + oligoB + "\n"), []byte(">q\n" + oligoA + oligoB + "\n"), gb, nil},
			{"search-query-second-record", []string{"search", mutable}, []byte(">q\n" + oligoA + "\n>r\n" + oligoB + "\n"), []byte(">q\n" + oligoA + "\n>r\n" + oligoC + "\n"), gb, nil},
			{"insert-guest-same-residues", []string{"insert", "^", mutable}, gb, fa, gb, nil},
			{"infix-host-same-residues", []string{"infix", "^", mutable}, gb, fa, []byte(">g\nacgt\n"), nil},
			// the same record with one qualifier value changed: same residues, same
			// length, same number of features
			{"insert-guest-annotation", []string{"insert", "^", mutable}, gb, gbAnnot, gb, nil},
			{"insert-guest-annotation-embed", []string{"insert", "^", mutable, "-e"}, gb, gbAnnot, gb, nil},
			{"infix-host-annotation", []string{"infix", "^", mutable}, gb, gbAnnot, []byte(">g\nacgt\n"), nil},
			{"annotate-table-qualifier", []string{"annotate", mutable}, tabA, bytes.Replace(tabA, []byte("one"), []byte("eno"), 1), gb, nil},
		}
		var hs, cs []string
		secKeys := map[string]int{}
		for _, sc := range secs {
			refs := map[string]runResult{}
			for _, v := range []struct {
				tag  string
				data []byte
			}{{"A", sc.a}, {"B", sc.b}} {
				ioutil.WriteFile(mutable, v.data, 0644)
				os.Chtimes(mutable, fixedTime, fixedTime)
				refs[v.tag] = s3.run(sc.args, sc.stdin, false, true)
			}
			for i, tag := range []string{"A", "A", "B", "B", "A"} {
				data := sc.a
				if tag == "B" {
					data = sc.b
				}
				ioutil.WriteFile(mutable, data, 0644)
				os.Chtimes(mutable, fixedTime, fixedTime)
				got := s3.run(sc.args, sc.stdin, false, false)
				if !sameResult(got, refs[tag]) {
					o.Violate("secondary-input-not-keyed", fmt.Sprintf("%s step %d (%s)", sc.name, i, tag),
						fmt.Sprintf("gts %s with contents %s after a run with other contents: exit %d vs %d, stdout sha1 %x vs %x",
							strings.Join(sc.args, " "), tag, got.code, refs[tag].code, sha1.Sum(got.stdout), sha1.Sum(refs[tag].stdout)))
				}
				// one abstract key per (command line, contents): two scenarios may
				// share a version of the file
				kname := fmt.Sprintf("%s|%x", strings.Join(sc.args, " "), sha1.Sum(data))
				id, seen := secKeys[kname]
				if !seen {
					id = len(secKeys)
					secKeys[kname] = id
				}
				hs = append(hs, fmt.Sprintf("(0 %d %s 0)", id, b2s(refs[tag].code == 0)))
				cs = append(cs, itoa(s3.entries()))
			}
		}
		o.Case("secondary-history", true, "cache_hist ("+strings.Join(hs, " ")+")", "ok ("+strings.Join(cs, " ")+")")
		scenarioStdinOffset(o, gb, aux)
		scenarioInterrupted(o, gb)
		scenarioNoCacheDir(o, gb)
		// different primary inputs on stdin under one command line
		var hs2, cs2 []string
		s4 := newSandbox()
		for i, in := range []string{"part.gb", "part.fa", "part.gb", "two.gb", "part.fa"} {
			want := s4.run([]string{"reverse"}, inputs[in], false, true)
			got := s4.run([]string{"reverse"}, inputs[in], false, false)
			if !sameResult(got, want) {
				o.Violate("primary-input-not-keyed", fmt.Sprintf("gts reverse < %s (step %d)", in, i), "")
			}
			hs2 = append(hs2, fmt.Sprintf("(%d 0 %s 0)", inID[in], b2s(want.code == 0)))
			cs2 = append(cs2, itoa(s4.entries()))
		}
		o.Case("stdin-history", true, "cache_hist ("+strings.Join(hs2, " ")+")", "ok ("+strings.Join(cs2, " ")+")")
		s3.close()
		s4.close()
	}
	// small independent histories of length 1..4 on fresh caches
	small := []cfg{mk("clear"), mk("extract", "CDS"), mk("extract", "CDS", "-v"), mk("delete", "10..20"), mk("delete", "10..20", "-e")}
	n := 0
	var rec func(h []step)
	rec = func(h []step) {
		if len(h) > 0 {
			n++
			if o.Tier == "thorough" || n%3 == int(o.Seed%3) {
				s2 := newSandbox()
				var hs, cs []string
				ids := map[string]int{}
				for _, st := range h {
					want := ref[st.c.key+"|"+st.in]
					got := s2.run(st.c.args, inputs[st.in], false, false)
					if !sameResult(got, want) {
						o.Violate("cached-run-differs", fmt.Sprintf("history %v", hs), fmt.Sprintf("gts %s < %s: exit %d vs %d", st.c.key, st.in, got.code, want.code))
					}
					if _, ok := ids[st.c.key]; !ok {
						ids[st.c.key] = len(ids)
					}
					hs = append(hs, fmt.Sprintf("(%d %d %s 0)", inID[st.in], ids[st.c.key], b2s(want.code == 0)))
					cs = append(cs, itoa(s2.entries()))
				}
				o.Case("short-history", true, "cache_hist ("+strings.Join(hs, " ")+")", "ok ("+strings.Join(cs, " ")+")")
				s2.close()
			}
		}
		if len(h) == 3 {
			return
		}
		for _, c := range small {
			for _, in := range []string{"part.gb", "trunc.gb"} {
				rec(append(append([]step(nil), h...), step{c, in, false}))
			}
		}
	}
	rec(nil)
}

// standard input is a regular file that the parent has already read a part of:
// the command sees the rest, with and without the cache, cold and warm, and two
// files that share only that rest are different inputs
func scenarioStdinOffset(o *Out, gb []byte, aux string) {

	s5 := newSandbox()
	fa := filepath.Join(aux, "stdin-a")
	fb := filepath.Join(aux, "stdin-b")
	headA, headB := []byte("# consumed by the parent: first file\n"), []byte(">other\nacgtacgtacgt\n")
	ioutil.WriteFile(fa, append(append([]byte(nil), headA...), gb...), 0644)
	ioutil.WriteFile(fb, append(append([]byte(nil), headB...), gb...), 0644)
	at := func(path string, off int, nocache bool) runResult {
		f, err := os.Open(path)
		if err != nil {
			return runResult{code: -2}
		}
		defer f.Close()
		f.Seek(int64(off), io.SeekStart)
		return s5.runFrom([]string{"reverse"}, f, false, nocache)
	}
	wantRest := s5.run([]string{"reverse"}, gb, false, true)
	wantWholeB := s5.run([]string{"reverse"}, append(append([]byte(nil), headB...), gb...), false, true)
	for i, st := range []struct {
		path string
		off  int
		want runResult
	}{{fa, len(headA), wantRest}, {fa, len(headA), wantRest}, {fb, len(headB), wantRest}, {fb, 0, wantWholeB}, {fb, len(headB), wantRest}} {
		if ref := at(st.path, st.off, true); !sameResult(ref, st.want) {
			o.Violate("stdin-offset-nocache", fmt.Sprintf("gts reverse --no-cache < %s at offset %d (step %d)", filepath.Base(st.path), st.off, i), "")
		}
		if got := at(st.path, st.off, false); !sameResult(got, st.want) {
			o.Violate("stdin-offset-not-transparent", fmt.Sprintf("gts reverse < %s at offset %d (step %d)", filepath.Base(st.path), st.off, i),
				fmt.Sprintf("exit %d vs %d, stdout sha1 %x vs %x", got.code, st.want.code, sha1.Sum(got.stdout), sha1.Sum(st.want.stdout)))
		}
	}
	s5.close()

}

// a run that is interrupted (SIGTERM / SIGINT while blocked on a full output
// pipe) leaves nothing that makes the next identical run differ from --no-cache
func scenarioInterrupted(o *Out, gb []byte) {

	s6 := newSandbox()
	big := bytes.Repeat(gb, 400)
	want := s6.run([]string{"reverse"}, big, false, true)
	for _, sig := range []os.Signal{syscall.SIGTERM, syscall.SIGINT} {
		cmd := exec.Command(gtsBin, "reverse")
		cmd.Env = []string{"XDG_CACHE_HOME=" + filepath.Join(s6.dir, "cache"), "HOME=" + filepath.Join(s6.dir, "home"),
			"TMPDIR=" + filepath.Join(s6.dir, "tmp"), "PATH=/usr/bin:/bin"}
		cmd.Stdin = bytes.NewReader(big)
		pr, pw, err := os.Pipe()
		if err != nil {
			continue
		}
		cmd.Stdout = pw
		if cmd.Start() == nil {
			pw.Close()
			time.Sleep(700 * time.Millisecond) // the child fills the pipe and blocks
			cmd.Process.Signal(sig)
			time.Sleep(300 * time.Millisecond)
			io.Copy(ioutil.Discard, pr)
			cmd.Wait()
		}
		pr.Close()
		got := s6.run([]string{"reverse"}, big, false, false)
		if !sameResult(got, want) {
			o.Violate("interrupted-run-replayed", fmt.Sprintf("gts reverse interrupted by %v, then run again", sig),
				fmt.Sprintf("exit %d vs %d, %d vs %d bytes", got.code, want.code, len(got.stdout), len(want.stdout)))
		}
	}
	s6.close()

}

// the cache directory cannot be had (its place is taken by a regular file; no
// HOME and no XDG_CACHE_HOME at all; a relative XDG_CACHE_HOME): the command
// still writes what --no-cache writes and exits as --no-cache exits
func scenarioNoCacheDir(o *Out, gb []byte) {
	s := newSandbox()
	defer s.close()
	blocker := filepath.Join(s.dir, "blocker")
	ioutil.WriteFile(blocker, []byte("not a directory"), 0644)
	envs := map[string][]string{
		"XDG_CACHE_HOME is a regular file": {"XDG_CACHE_HOME=" + blocker, "HOME=" + filepath.Join(s.dir, "home"), "PATH=/usr/bin:/bin"},
		"neither HOME nor XDG_CACHE_HOME":  {"PATH=/usr/bin:/bin"},
		"HOME/.cache is a regular file":    {"HOME=" + blocker, "PATH=/usr/bin:/bin"},
		"relative XDG_CACHE_HOME":          {"XDG_CACHE_HOME=rel/cache", "HOME=" + filepath.Join(s.dir, "home"), "PATH=/usr/bin:/bin"},
	}
	run := func(env []string, args ...string) runResult {
		cmd := exec.Command(gtsBin, args...)
		cmd.Env = env
		cmd.Dir = filepath.Join(s.dir, "tmp")
		cmd.Stdin = bytes.NewReader(gb)
		var so, se bytes.Buffer
		cmd.Stdout, cmd.Stderr = &so, &se
		err := cmd.Run()
		code := 0
		if err != nil {
			if ee, ok := err.(*exec.ExitError); ok {
				code = ee.ExitCode()
			} else {
				code = -1
			}
		}
		return runResult{stdout: so.Bytes(), code: code}
	}
	names := make([]string, 0, len(envs))
	for k := range envs {
		names = append(names, k)
	}
	sort.Strings(names)
	for _, name := range names {
		for _, sub := range [][]string{{"reverse"}, {"complement"}} {
			ref := run(envs[name], append(append([]string{}, sub...), "--no-cache")...)
			for step := 0; step < 2; step++ {
				got := run(envs[name], sub...)
				o.Dist["cli-no-cache-dir"]++
				if !sameResult(got, ref) {
					o.Violate("no-cache-dir-not-transparent", fmt.Sprintf("gts %s with %s (run %d)", sub[0], name, step+1),
						fmt.Sprintf("exit %d vs %d, %d vs %d bytes", got.code, ref.code, len(got.stdout), len(ref.stdout)))
				}
			}
		}
	}
}
