package main

import (
	"bytes"
	"fmt"
	"github.com/go-gts/gts"
	"io/ioutil"
	"strings"

	"github.com/go-gts/gts/seqio"
	"github.com/go-pars/pars"
)

func init() {
	props["C16"] = runC16
	ops["to_len"] = func(a []string) string { return itoa(seqio.VerifToOriginLength(atoi(a[0]))) }
	ops["from_len"] = func(a []string) string { return itoa(seqio.VerifFromOriginLength(atoi(a[0]))) }
	ops["origin_new"] = func(a []string) string { return "ok " + hx(seqio.NewOrigin(unhx(a[0])).Buffer) }
	ops["origin_bytes"] = func(a []string) string {
		o := seqio.Origin{Buffer: unhx(a[0]), Parsed: false}
		return "ok " + hx(o.Bytes())
	}
	ops["origin_len"] = func(a []string) string {
		o := seqio.Origin{Buffer: unhx(a[0]), Parsed: false}
		return itoa(o.Len())
	}
	ops["origin_validate"] = func(a []string) string {
		return "ok " + b2s(seqio.VerifValidateOrigin(unhx(a[1]), atoi(a[0])) == nil)
	}
	ops["origin_slow"] = func(a []string) string {
		r, err, rest, pan := runParser(seqio.VerifSlowOriginParser(atoi(a[0])), unhx(a[1]))
		switch {
		case pan:
			return "panic"
		case err != nil:
			return "err"
		}
		return join("ok", hx(r.Token), itoa(rest))
	}
	ops["origin_block"] = func(a []string) string {
		fp, get := seqio.VerifOriginFieldParser(atoi(a[0]), 12)
		full := append([]byte("ORIGIN      \n"), unhx(a[1])...)
		_, err, rest, pan := runParser(fp, full)
		switch {
		case pan:
			return "panic"
		case err != nil:
			return "err"
		}
		return join("ok", hx(get().Buffer), itoa(rest))
	}
}

func residues(alpha string, n int, rot int) []byte {
	p := make([]byte, n)
	for i := range p {
		p[i] = alpha[(i+rot)%len(alpha)]
	}
	return p
}

// layoutOK is the property's own description of the block, written
// independently of NewOrigin: lines of a 9-column right-aligned 1-based index
// followed by up to six space-separated groups of ten residues.
func layoutOK(block []byte, p []byte) string {
	if len(p) == 0 {
		if len(block) != 0 {
			return "empty sequence must give empty block"
		}
		return ""
	}
	if len(block) == 0 || block[len(block)-1] != '\n' {
		return "block does not end with newline"
	}
	lines := strings.Split(string(block[:len(block)-1]), "\n")
	want := (len(p) + 59) / 60
	if len(lines) != want {
		return fmt.Sprintf("expected %d lines, got %d", want, len(lines))
	}
	for k, line := range lines {
		idx := fmt.Sprintf("%9d", 60*k+1)
		if !strings.HasPrefix(line, idx) {
			return fmt.Sprintf("line %d: bad index column", k)
		}
		rest := line[len(idx):]
		chunk := p[60*k:]
		if len(chunk) > 60 {
			chunk = chunk[:60]
		}
		var b strings.Builder
		for g := 0; g < len(chunk); g += 10 {
			e := g + 10
			if e > len(chunk) {
				e = len(chunk)
			}
			b.WriteByte(' ')
			b.Write(chunk[g:e])
		}
		if rest != b.String() {
			return fmt.Sprintf("line %d: groups differ", k)
		}
	}
	return ""
}

func runParser(p pars.Parser, input []byte) (res *pars.Result, err error, rest int, panicked bool) {
	defer func() {
		if r := recover(); r != nil {
			panicked = true
		}
	}()
	st := pars.FromBytes(append([]byte(nil), input...))
	r := pars.Result{}
	err = p(st, &r)
	return &r, err, len(st.Dump()), false
}

func crlf(b []byte) []byte { return bytes.ReplaceAll(b, []byte("\n"), []byte("\r\n")) }

// scanned records: gts.Len agrees with the residues actually held, twice over,
// also for a record that has a CONTIG line and no ORIGIN block
func runC16Scanned(o *Out) {
	recs := [][]byte{}
	for _, name := range []string{"NC_001422_part.gb", "NC_000913.3.min.gb", "pBAT5.txt"} {
		if raw, err := ioutil.ReadFile("/repo/seqio/testdata/" + name); err == nil {
			recs = append(recs, raw)
		}
	}
	recs = append(recs, []byte("LOCUS       CONTIGONLY               500 bp    DNA     linear   SYN 01-JAN-2020\nDEFINITION  contig only.\nACCESSION   C00001\nVERSION     C00001.1\nKEYWORDS    .\nSOURCE      synthetic\n  ORGANISM  synthetic\n            other.\nFEATURES             Location/Qualifiers\n     source          1..500\n                     /organism=\"synthetic\"\nCONTIG      join(X00001.1:1..500)\n//\n"))
	for ri, raw := range recs {
		sc := seqio.NewAutoScanner(bytes.NewReader(raw))
		for sc.Scan() {
			seq := sc.Value()
			n1 := gts.Len(seq)
			b1 := seq.Bytes()
			n2 := gts.Len(seq)
			b2 := seq.Bytes()
			if n1 != len(b1) || n2 != len(b2) || !bytes.Equal(b1, b2) {
				o.Violate("scanned-len-vs-bytes", fmt.Sprintf("record %d", ri), fmt.Sprintf("Len %d/%d, Bytes %d/%d", n1, n2, len(b1), len(b2)))
			}
		}
	}
}

func runC16(o *Out) {
	runC16Scanned(o)
	maxLen := 400
	arithMax := 3000
	if o.Tier == "thorough" {
		maxLen = 1300
		arithMax = 200000
	}
	// 1. the size arithmetic itself (cross-checks the translator's reading)
	for n := -130; n <= arithMax; n++ {
		o.Run("arith", n > 0 && n < 200, "to_len", itoa(n))
		o.Run("arith", n > 0 && n < 200, "from_len", itoa(n))
	}
	alphas := []string{"acgt", "ACGTURYKMBDHVN", "!\"#$%&'()*+,-./0123456789:;<=>?@[\\]^_`{|}~az"}
	// 2. every length, three alphabets: formatting, decoding, Len
	for n := 0; n <= maxLen; n++ {
		for ai, alpha := range alphas {
			p := residues(alpha, n, n+ai)
			line := join("origin_new", hx(p))
			res := o.Run("new", n > 0, "origin_new", hx(p))
			if res == "panic" {
				o.Violate("new-origin-panics", line, "")
				continue
			}
			block := unhx(strings.TrimPrefix(res, "ok "))
			if msg := layoutOK(block, p); msg != "" {
				o.Violate("layout", line, msg)
			}
			if len(block) != seqio.VerifToOriginLength(n) {
				o.Violate("length-formula", line, fmt.Sprintf("block %d bytes, formula %d", len(block), seqio.VerifToOriginLength(n)))
			}
			or := seqio.Origin{Buffer: append([]byte(nil), block...)}
			if or.Len() != n {
				o.Violate("len-without-decoding", line, fmt.Sprintf("Len()=%d want %d", or.Len(), n))
			}
			o.Run("len", n > 0, "origin_len", hx(block))
			br := o.Run("bytes", n > 0, "origin_bytes", hx(block))
			if br != "ok "+hx(p) {
				o.Violate("roundtrip", line, "Bytes() of the block differs from the residues")
			}
			pr := seqio.Origin{Buffer: append([]byte(nil), p...), Parsed: true}
			if pr.String() != string(block) || pr.Len() != n {
				o.Violate("parsed-origin-string", line, "String()/Len() of a parsed origin disagree")
			}
			// the same value asked again: decoding happens once, every later call
			// of Bytes / Len / String agrees with the first
			if n <= 140 {
				for _, mk := range []func() *seqio.Origin{
					func() *seqio.Origin { return &seqio.Origin{Buffer: append([]byte(nil), block...)} },
					func() *seqio.Origin { return seqio.NewOrigin(append([]byte(nil), p...)) },
				} {
					og := mk()
					b1 := append([]byte(nil), og.Bytes()...)
					l1 := og.Len()
					b2 := append([]byte(nil), og.Bytes()...)
					s2 := og.String()
					b3 := og.Bytes()
					if !bytes.Equal(b1, p) || !bytes.Equal(b2, p) || !bytes.Equal(b3, p) || l1 != n || og.Len() != n || s2 != string(block) {
						o.Violate("origin-asked-twice", line, fmt.Sprintf("Bytes %d/%d/%d bytes, Len %d/%d, want %d", len(b1), len(b2), len(b3), l1, og.Len(), n))
					}
				}
			}
		}
	}
	// 3. decoder and Len on arbitrary buffers (truncated / extended / random)
	nbuf := 1500
	if o.Tier == "thorough" {
		nbuf = 30000
	}
	for k := 0; k < nbuf; k++ {
		var buf []byte
		switch k % 3 {
		case 0:
			n := o.Rng.Intn(200)
			buf = seqio.NewOrigin(residues("acgt", n, k)).Buffer
			if len(buf) > 0 {
				buf = buf[:o.Rng.Intn(len(buf)+1)]
			}
		case 1:
			n := o.Rng.Intn(200)
			buf = append(append([]byte(nil), seqio.NewOrigin(residues("acgt", n, k)).Buffer...), residues("xyz \n", o.Rng.Intn(30), k)...)
		default:
			buf = make([]byte, o.Rng.Intn(180))
			for i := range buf {
				buf[i] = " \nacgt0123456789"[o.Rng.Intn(16)]
			}
		}
		o.Run("bytes-arbitrary", len(buf) >= 12, "origin_bytes", hx(buf))
		o.Run("len-arbitrary", len(buf) >= 12, "origin_len", hx(buf))
	}
	// 4. fast validator vs slow line parser vs the whole ORIGIN field reader
	type blk struct {
		class string
		decl  int
		data  []byte
	}
	var blocks []blk
	lens := []int{0, 1, 9, 10, 11, 59, 60, 61, 70, 119, 120, 121, 130}
	if o.Tier == "thorough" {
		for n := 0; n <= 200; n++ {
			lens = append(lens, n)
		}
	}
	for _, n := range lens {
		good := seqio.NewOrigin(residues("acgtn", n, n)).Buffer
		blocks = append(blocks, blk{"valid-lf", n, good})
		blocks = append(blocks, blk{"valid-crlf", n, crlf(good)})
		for _, d := range []int{-61, -60, -11, -10, -1, 1, 10, 60} {
			blocks = append(blocks, blk{"decl-mismatch", n + d, good})
			blocks = append(blocks, blk{"decl-mismatch-crlf", n + d, crlf(good)})
		}
		blocks = append(blocks, blk{"decl-zero", 0, good}, blk{"decl-neg", -n, good})
		// single byte mutations
		for t := 0; t < 6 && len(good) > 0; t++ {
			m := append([]byte(nil), good...)
			i := o.Rng.Intn(len(m))
			m[i] = " \nx1\t\r"[o.Rng.Intn(6)]
			blocks = append(blocks, blk{"mutated", n, m})
		}
		// a residue column holding a byte that is no printable ASCII character
		// (DEL, Latin-1, a UTF-8 lead byte, NUL, a control character) or an unusual
		// printable one: both paths draw the same line
		for t, c := range []byte{0x7f, 0x80, 0xe9, 0xff, 0x00, 0x1f, '~', '!'} {
			if n == 0 {
				break
			}
			m := append([]byte(nil), good...)
			col := (t*7 + n) % n // residue index
			pos := (col/60)*(10+66) + 10 + (col % 60) + (col%60)/10
			if pos < len(m) && m[pos] != ' ' && m[pos] != '\n' {
				m[pos] = c
				blocks = append(blocks, blk{"odd-residue-byte", n, m})
			}
		}
		// trailing garbage on the last line, missing newline, extra group
		if len(good) > 0 {
			g := append(append([]byte(nil), good[:len(good)-1]...), []byte(" extra\n")...)
			blocks = append(blocks, blk{"trailing-garbage", n, g})
			blocks = append(blocks, blk{"truncated", n, good[:len(good)-1-o.Rng.Intn(len(good)-1)]})
		}
	}
	for _, b := range blocks {
		for _, tail := range []string{"//\n", "//\nLOCUS       NEXT 3 bp DNA linear UNA 01-JAN-2000\n", ""} {
			input := append(append([]byte(nil), b.data...), tail...)
			nt := b.class != "valid-lf"
			line := join("origin_block", itoa(b.decl), hx(input))
			res := o.Run("block-"+b.class, nt, "origin_block", itoa(b.decl), hx(input))
			if res == "panic" {
				o.Violate("origin-reader-panics", line, "")
			}
			res2 := o.Run("slow-"+b.class, nt, "origin_slow", itoa(b.decl), hx(input))
			// fast validator on exactly the requested prefix
			need := seqio.VerifToOriginLength(b.decl)
			if need >= 0 && need <= len(input) {
				pre := input[:need]
				res3 := o.Run("fast-"+b.class, nt, "origin_validate", itoa(b.decl), hx(pre))
				// the property: on LF blocks both paths accept the same
				// blocks and give the same residues
				if !bytes.Contains(input, []byte("\r")) && b.decl >= 0 {
					fastOK := res3 == "ok 1"
					slowOK := strings.HasPrefix(res2, "ok ")
					if fastOK != slowOK {
						o.Violate("fast-slow-disagree", line, fmt.Sprintf("fast=%s slow=%s", res3, res2))
					} else if fastOK {
						sb := seqio.Origin{Buffer: unhx(strings.Fields(res2)[1])}
						fb := seqio.Origin{Buffer: append([]byte(nil), pre...)}
						if !bytes.Equal(sb.Bytes(), fb.Bytes()) {
							o.Violate("fast-slow-residues", line, "")
						}
					}
				}
			}
		}
	}
}
