package main

import (
	"fmt"
	"os"
	"reflect"
	"regexp"
	"strings"

	"github.com/go-gts/gts"
)

func init() {
	props["C19"] = runC19
	ops["selector"] = func(a []string) string {
		f, err := gts.Selector(string(unhx(a[0])))
		if err != nil {
			return "err"
		}
		return "ok " + b2s(f(sxFeat(parseSx(a[1])[0])))
	}
	ops["shift_selector"] = func(a []string) string {
		h, t := gts.VerifShiftSelector(string(unhx(a[0])))
		return join("ok", hx([]byte(h)), hx([]byte(t)))
	}
	ops["filter_eval"] = func(a []string) string {
		return "ok " + b2s(sxFilter(parseSx(a[0])[0])(sxFeat(parseSx(a[1])[0])))
	}
	ops["feature_filter"] = func(a []string) string {
		var ff gts.FeatureSlice
		for _, f := range parseSx(a[1])[0].list {
			ff = append(ff, sxFeat(f))
		}
		return "ok " + featsSx(ff.Filter(sxFilter(parseSx(a[0])[0])))
	}
}

func sxFilter(x *sx) gts.Filter {
	if !x.isL {
		switch x.atom {
		case "true":
			return gts.TrueFilter
		case "false":
			return gts.FalseFilter
		case "fwd":
			return gts.ForwardStrand
		case "rev":
			return gts.ReverseStrand
		}
		panic("filter expected")
	}
	a := x.list
	switch a[0].atom {
	case "and", "or":
		var fs []gts.Filter
		for _, e := range a[1:] {
			fs = append(fs, sxFilter(e))
		}
		if a[0].atom == "and" {
			return gts.And(fs...)
		}
		return gts.Or(fs...)
	case "not":
		return gts.Not(sxFilter(a[1]))
	case "within":
		return gts.Within(atoi(a[1].atom), atoi(a[2].atom))
	case "overlap":
		return gts.Overlap(atoi(a[1].atom), atoi(a[2].atom))
	case "key":
		return gts.Key(string(unhx(a[1].atom)))
	case "qual":
		f, err := gts.Qualifier(string(unhx(a[1].atom)), string(unhx(a[2].atom)))
		if err != nil {
			panic(err)
		}
		return f
	}
	panic("filter expected")
}

// specAccept: the documented meaning of a selector, written independently
func specAccept(sel string, f gts.Feature) (bool, bool) {
	// split on unescaped '/'
	var parts []string
	cur := ""
	esc := false
	for i := 0; i < len(sel); i++ {
		c := sel[i]
		if c == '/' && !esc {
			parts = append(parts, cur)
			cur = ""
			continue
		}
		esc = c == '\\' && !esc
		cur += string(c)
	}
	parts = append(parts, cur)
	// a trailing '/' introduces no clause
	if len(parts) > 1 && parts[len(parts)-1] == "" {
		parts = parts[:len(parts)-1]
	}
	// every regular expression must compile
	for _, clause := range parts[1:] {
		if i := strings.IndexByte(clause, '='); i >= 0 {
			if _, err := regexp.Compile(clause[i+1:]); err != nil {
				return false, false
			}
		}
	}
	key := parts[0]
	if key != "" && f.Key != key {
		return false, true
	}
	for _, clause := range parts[1:] {
		name, pat := clause, ""
		if i := strings.IndexByte(clause, '='); i >= 0 {
			name, pat = clause[:i], clause[i+1:]
		}
		re, err := regexp.Compile(pat)
		if err != nil {
			return false, false
		}
		ok := false
		if name == "" {
			for _, p := range f.Props {
				for _, v := range p[1:] {
					if re.MatchString(v) {
						ok = true
					}
				}
			}
		} else {
			for _, p := range f.Props {
				if p[0] == name {
					if pat == "" {
						ok = true
					}
					for _, v := range p[1:] {
						if re.MatchString(v) {
							ok = true
						}
					}
					break
				}
			}
		}
		if !ok {
			return false, true
		}
	}
	return true, true
}

func runC19(o *Out) {
	runC19CLI(o)
	keys := []string{"gene", "CDS", "source"}
	names := []string{"gene", "note", "product"}
	var feats []gts.Feature
	locs := []gts.Location{gts.Range(2, 6), gts.Complemented{Location: gts.Range(4, 9)}, gts.Join(gts.Range(1, 3), gts.Complemented{Location: gts.Range(5, 7)}), gts.Point(3)}
	for ki, k := range keys {
		feats = append(feats,
			gts.Feature{Key: k, Loc: locs[ki%len(locs)], Props: gts.Props{}},
			gts.Feature{Key: k, Loc: locs[(ki+1)%len(locs)], Props: gts.Props{{"gene", "abc"}}},
			gts.Feature{Key: k, Loc: locs[(ki+2)%len(locs)], Props: gts.Props{{"gene", "a", "x y"}, {"note", ""}}},
			gts.Feature{Key: k, Loc: locs[(ki+3)%len(locs)], Props: gts.Props{{"note", "gene"}, {"product", "abc", "abc"}, {"gene", "zzz"}, {"gene", "abc"}}},
			// a value that occurs only in the SECOND entry carrying its name
			gts.Feature{Key: k, Loc: locs[ki%len(locs)], Props: gts.Props{{"note", "first"}, {"gene", "g1"}, {"note", "zzz", "x y"}}},
			// every value empty (a toggle qualifier, an empty quoted value): the empty
			// string is a value like any other for a regexp that matches it
			gts.Feature{Key: k, Loc: locs[(ki+1)%len(locs)], Props: gts.Props{{"pseudo", ""}, {"note", ""}}},
		)
	}
	// selector strings assembled from the alphabets and a regexp fragment
	pats := []string{"", "a", "abc", "^a", "c$", "^abc$", "a.c", "x y", ".", "gene", "zzz", "(", "^$"}
	var sels []string
	for _, k := range append([]string{""}, keys...) {
		sels = append(sels, k, k+"/", k+"//")
		for _, n := range append([]string{""}, names...) {
			sels = append(sels, k+"/"+n)
			for _, p := range pats {
				sels = append(sels, k+"/"+n+"="+p)
				sels = append(sels, k+"/"+n+"="+p+"/note")
				sels = append(sels, k+"/gene/"+n+"="+p)
			}
		}
	}
	sels = append(sels, "gene/note=a\\/b", "a\\/b/gene", "gene\\//x", "\\", "/=", "=", "gene=abc", "/gene=abc=d", "CDS/gene=a/gene=x y/note=")
	for _, s := range sels {
		o.Run("shift_selector", true, "shift_selector", hx([]byte(s)))
		for _, f := range feats {
			res := o.Run("selector", true, "selector", hx([]byte(s)), featSx(f))
			line := join("selector", hx([]byte(s)), featSx(f))
			want, valid := specAccept(s, f)
			switch {
			case res == "panic":
				o.Violate("panic", line, s)
			case !valid:
				if res != "err" {
					o.Violate("invalid-regexp-accepted", line, s)
				}
			case res == "err":
				o.Violate("selector-rejected", line, s)
			case (res == "ok 1") != want:
				o.Violate("selector-semantics", line, fmt.Sprintf("selector %q on %s %v: got %s, documented meaning %v", s, f.Key, f.Props, res, want))
			}
		}
	}
	// boolean algebra, bounds, strands
	atoms := []string{"true", "false", "fwd", "rev", "(key x67656e65)", "(key x)", "(within 2 7)", "(overlap 3 5)", "(overlap 6 6)", "(qual x67656e65 x61)", "(qual x x)"}
	for _, a := range atoms {
		for _, b := range atoms {
			for _, f := range feats[:8] {
				and := fmt.Sprintf("(and %s %s)", a, b)
				or := fmt.Sprintf("(or %s %s)", a, b)
				na := fmt.Sprintf("(not %s)", a)
				ra := o.Run("filter", true, "filter_eval", a, featSx(f)) == "ok 1"
				rb := o.Run("filter", true, "filter_eval", b, featSx(f)) == "ok 1"
				if (o.Run("filter", true, "filter_eval", and, featSx(f)) == "ok 1") != (ra && rb) {
					o.Violate("and", join("filter_eval", and, featSx(f)), "")
				}
				if (o.Run("filter", true, "filter_eval", or, featSx(f)) == "ok 1") != (ra || rb) {
					o.Violate("or", join("filter_eval", or, featSx(f)), "")
				}
				if (o.Run("filter", true, "filter_eval", na, featSx(f)) == "ok 1") != !ra {
					o.Violate("not", join("filter_eval", na, featSx(f)), "")
				}
			}
		}
	}
	// Within / Overlap in terms of denoted residues; strand filters
	for _, l := range family(8, false) {
		f := gts.Feature{Key: "f", Loc: l}
		sites := strings.Contains(locSx(l), "(B ") // zero-length sites have a position but no residue
		for lo := 0; lo <= 8; lo += 2 {
			for up := lo; up <= 8; up += 3 {
				o.Run("within", true, "filter_eval", fmt.Sprintf("(within %d %d)", lo, up), featSx(f))
				o.Run("overlap", true, "filter_eval", fmt.Sprintf("(overlap %d %d)", lo, up), featSx(f))
				d := den(l)
				ov := false
				for _, x := range d {
					if lo <= x.p && x.p < up {
						ov = true
					}
				}
				// an empty window inside a range counts as overlapping (the code keeps features
				// spanning a zero-length slice); the residue reading is claimed for lo < up
				if lo < up && !sites && len(d) > 0 && gts.Overlap(lo, up)(f) != ov {
					o.Violate("overlap-vs-denotation", join("overlap", locSx(l), itoa(lo), itoa(up)), "")
				}
				in := true
				for _, x := range d {
					if !(lo <= x.p && x.p < up) {
						in = false
					}
				}
				if !sites && len(d) > 0 && gts.Within(lo, up)(f) != in {
					o.Violate("within-vs-denotation", join("within", locSx(l), itoa(lo), itoa(up)), "")
				}
			}
		}
		o.Run("strand", true, "loc_strand", locSx(l))
	}
	// strands of nested multi-part locations: a part lying on both strands makes
	// the whole lie on both, at any depth
	rg := func(a, b int) gts.Location { return gts.Range(a, b) }
	cp := func(l gts.Location) gts.Location { return gts.Complemented{Location: l} }
	nested := []gts.Location{
		gts.Ordered{gts.Joined{rg(0, 3), cp(rg(4, 7))}, rg(8, 9)},
		gts.Joined{gts.Ordered{cp(rg(0, 3)), rg(4, 7)}, rg(8, 9)},
		gts.Ordered{gts.Joined{rg(0, 3), cp(rg(4, 7))}, cp(rg(8, 9))},
		gts.Joined{rg(0, 1), gts.Ordered{gts.Joined{cp(rg(2, 3)), rg(4, 5)}, rg(6, 7)}},
		gts.Ordered{gts.Joined{rg(0, 3), rg(4, 7)}, rg(8, 9)},
		gts.Ordered{gts.Joined{cp(rg(0, 3)), cp(rg(4, 7))}, cp(rg(8, 9))},
		gts.Ordered{gts.Joined{cp(rg(0, 3)), cp(rg(4, 7))}, rg(8, 9)},
		gts.Joined{gts.Ordered{rg(0, 1)}, gts.Ordered{gts.Joined{rg(2, 3), cp(rg(4, 5))}}},
	}
	var strandOf func(l gts.Location) string
	strandOf = func(l gts.Location) string {
		var parts []gts.Location
		switch v := l.(type) {
		case gts.Complemented:
			return "rev"
		case gts.Joined:
			parts = v
		case gts.Ordered:
			parts = v
		default:
			return "fwd"
		}
		f, r := false, false
		for _, e := range parts {
			switch strandOf(e) {
			case "fwd":
				f = true
			case "rev":
				r = true
			default:
				f, r = true, true
			}
		}
		if f && r {
			return "both"
		} else if r {
			return "rev"
		}
		return "fwd"
	}
	for _, l := range append(nested, family(8, false)...) {
		o.Run("strand-nested", true, "loc_strand", locSx(l))
		f := gts.Feature{Key: "f", Loc: l}
		want := strandOf(l)
		if gts.ForwardStrand(f) != (want == "fwd") || gts.ReverseStrand(f) != (want == "rev") {
			o.Violate("strand-filter", join("loc_strand", locSx(l)), fmt.Sprintf("want %s, forward filter %v, reverse filter %v", want, gts.ForwardStrand(f), gts.ReverseStrand(f)))
		}
	}
	// Filter returns exactly the accepted features, in order, unaltered
	for _, p := range atoms {
		var ff gts.FeatureSlice
		ff = append(ff, feats...)
		before := featsSx(ff)
		res := o.Run("feature_filter", true, "feature_filter", p, featsSx(ff))
		if featsSx(ff) != before {
			o.Violate("filter-alters-table", "feature_filter "+p, "")
		}
		var want []gts.Feature
		flt := sxFilter(parseSx(p)[0])
		for _, f := range feats {
			if flt(f) {
				want = append(want, f)
			}
		}
		if res != "ok "+featsSx(want) {
			o.Violate("filter-not-exact", "feature_filter "+p, "")
		}
	}
	// sorted insertion: all insertion sequences of up to 5 features from a pool
	poolF := []gts.Feature{
		mkFeat("source", gts.Range(0, 9)), mkFeat("gene", gts.Range(2, 5)), mkFeat("CDS", gts.Range(2, 5)),
		mkFeat("CDS", gts.PartialRange(2, 5, gts.Partial5)), mkFeat("m", gts.Join(gts.Range(1, 2), gts.Range(6, 8))),
		mkFeat("c", gts.Complemented{Location: gts.Range(3, 4)}), mkFeat("p", gts.Point(2)), mkFeat("source", gts.Range(0, 4)),
		mkFeat("b", gts.Between(2)), mkFeat("o", gts.Order(gts.Point(7), gts.Range(0, 1))),
	}
	var seqs [][]int
	var gen func(cur []int)
	gen = func(cur []int) {
		if len(cur) > 0 {
			seqs = append(seqs, append([]int(nil), cur...))
		}
		if len(cur) == 4 {
			return
		}
		for i := range poolF {
			gen(append(cur, i))
		}
	}
	gen(nil)
	for si, sq := range seqs {
		if o.Tier != "thorough" && len(sq) == 4 && si%4 != int(o.Seed%4) {
			continue
		}
		var ff gts.FeatureSlice
		for _, i := range sq {
			f := poolF[i]
			before := append(gts.FeatureSlice(nil), ff...)
			res := o.Run("fs_insert", true, "fs_insert", featsSx(ff), featSx(f))
			// the receiver is given room to spare: inserting must leave it (and the
			// room behind it) alone, so a second insertion from the same table, made
			// afterwards, cannot disturb the first result
			recv := make(gts.FeatureSlice, len(ff), len(ff)+3)
			copy(recv, ff)
			first := recv.Insert(f)
			snap := featsSx(first)
			for _, g := range poolF {
				_ = recv.Insert(g)
			}
			if featsSx(recv) != featsSx(before) || featsSx(first) != snap {
				o.Violate("insert-wrote-into-its-receiver", join("fs_insert", featsSx(before), featSx(f)), "receiver "+featsSx(recv)+" first result "+featsSx(first))
			}
			ff = ff.Insert(f)
			if res != "ok "+featsSx(ff) || snap != featsSx(ff) {
				if snap != featsSx(ff) {
					o.Violate("insert-depends-on-spare-room", join("fs_insert", featsSx(before), featSx(f)), snap)
				}
				break
			}
			checkInserted(o, before, f, ff)
		}
	}
	// location order: strict partial order on the family (sample of triples)
	fam := family(6, false)
	for i := 0; i < len(fam); i += 7 {
		for j := 0; j < len(fam); j += 11 {
			a, b := fam[i], fam[j]
			o.Run("loc_less", true, "loc_less", locSx(a), locSx(b))
			if gts.LocationLess(a, a) {
				o.Violate("less-reflexive", join("loc_less", locSx(a), locSx(a)), "")
			}
			if gts.LocationLess(a, b) && gts.LocationLess(b, a) {
				o.Violate("less-symmetric", join("loc_less", locSx(a), locSx(b)), "")
			}
			for k := 0; k < len(fam); k += 13 {
				c := fam[k]
				if gts.LocationLess(a, b) && gts.LocationLess(b, c) && !gts.LocationLess(a, c) {
					o.Violate("less-not-transitive", join("loc_less", locSx(a), locSx(b), locSx(c)), "")
				}
			}
		}
	}
}

// runC19CLI: gts select combines its selectors as a union, -v takes the
// complement of that union, source features are always kept, -s restricts to
// one strand.  The expected table is computed with specAccept, not with the
// command's own filter construction.
func runC19CLI(o *Out) {
	if _, err := os.Stat(gtsBin); err != nil {
		return
	}
	rec := mkRecord(gts.Linear, 60)
	text := gbText(rec)
	sets := [][]string{{"gene"}, {"CDS"}, {"gene", "CDS"}, {"CDS/gene=b", "misc_feature"}, {"mRNA", "regulatory/note=r1", "gene"},
		{"/gene=a"}, {"/gene=a", "/note"}, {"nothing"}, {"nothing", "CDS"}}
	sb := newSandbox()
	defer sb.close()
	for _, sels := range sets {
		for _, invert := range []bool{false, true} {
			for _, strand := range []string{"", "forward", "reverse"} {
				args := []string{"select", "--no-cache"}
				if invert {
					args = append(args, "-v")
				}
				if strand != "" {
					args = append(args, "-s", strand)
				}
				args = append(args, sels...)
				line := "gts " + strings.Join(args, " ")
				o.Dist["cli-select"]++
				r := sb.run(args, text, false, false)
				outs, ok := parseRecords(r.stdout)
				if r.code != 0 || !ok || len(outs) != 1 {
					if len(sels) == 0 {
						continue // no selector at all: usage error is acceptable
					}
					o.Violate("select-command-failed", line, fmt.Sprintf("exit %d", r.code))
					continue
				}
				var want []string
				for _, f := range rec.Features() {
					match := false
					for _, sel := range sels {
						if acc, okSel := specAccept(sel, f); okSel && acc {
							match = true
						}
					}
					keep := f.Key == "source" || (match != invert)
					_, isComp := f.Loc.(gts.Complemented)
					if strand == "forward" && isComp {
						keep = false
					}
					if strand == "reverse" && !isComp {
						keep = false
					}
					if keep {
						want = append(want, f.Key+" "+f.Loc.String())
					}
				}
				var got []string
				for _, f := range outs[0].Features() {
					got = append(got, f.Key+" "+f.Loc.String())
				}
				if strings.Join(got, "|") != strings.Join(want, "|") {
					o.Violate("select-cli", line, fmt.Sprintf("kept %v want %v", got, want))
				}
			}
		}
	}
}

func checkInserted(o *Out, before gts.FeatureSlice, f gts.Feature, after gts.FeatureSlice) {
	line := join("fs_insert", featsSx(before), featSx(f))
	if len(after) != len(before)+1 {
		o.Violate("insert-count", line, "")
		return
	}
	// the old features in their old relative order plus the new one
	j := 0
	used := false
	for _, g := range after {
		if j < len(before) && reflect.DeepEqual(g, before[j]) {
			j++
			continue
		}
		if !used && reflect.DeepEqual(g, f) {
			used = true
			continue
		}
		o.Violate("insert-not-superset", line, featsSx(after))
		return
	}
	// source features first; the rest in non-decreasing location order
	seenOther := false
	for i, g := range after {
		if g.Key == "source" {
			if seenOther {
				o.Violate("insert-source-not-first", line, featsSx(after))
				return
			}
			continue
		}
		seenOther = true
		if i > 0 && after[i-1].Key != "source" && gts.LocationLess(g.Loc, after[i-1].Loc) {
			o.Violate("insert-not-sorted", line, featsSx(after))
			return
		}
	}
}
