package main

// C07: parsers are total.  Valid records and strings are mutated
// structure-aware (truncate at every offset, delete/duplicate/swap lines,
// change the declared length, shrink/grow indents, drop field values, flip
// bytes, CRLF) and scanned by the implementation under recover and a time
// limit; every scan is also a correspondence case for the Coq model of the
// reader, whose totality theorems then speak about the code that ran.

import (
	"bytes"
	"fmt"
	"io/ioutil"
	"regexp"
	"strings"
	"time"

	"github.com/go-gts/gts"
	"github.com/go-gts/gts/seqio"
)

func init() { props["C07"] = runC07 }

const smallRecord = `LOCUS       TEST_0001                 70 bp    DNA     linear   SYN 14-JUL-2020
DEFINITION  A small record
            on two lines.
ACCESSION   TEST_0001
VERSION     TEST_0001.1
DBLINK      BioProject: PRJNA1
            KEGG BRITE: X1
KEYWORDS    one; two.
SOURCE      synthetic construct
  ORGANISM  synthetic construct
            other sequences; artificial sequences.
REFERENCE   1  (bases 1 to 70)
  AUTHORS   Doe,J.
  TITLE     A title
  JOURNAL   Unpublished
   PUBMED   123
COMMENT     a comment
            over two lines
PRIMARY     extra field
FEATURES             Location/Qualifiers
     source          1..70
                     /organism="synthetic construct"
                     /mol_type="genomic DNA"
     gene            complement(join(5..20,30..>40))
                     /gene="abc"
                     /pseudo
                     /codon_start=1
     CDS             <10..20
                     /note="a value
                     on two lines"
ORIGIN
        1 acgtacgtac gtacgtacgt acgtacgtac gtacgtacgt acgtacgtac gtacgtacgt
       61 acgtacgtac
//
`

const contigRecord = `LOCUS       CTG_1                   5000 bp    DNA     linear   CON 01-JAN-2001
DEFINITION  contig only.
ACCESSION   CTG_1
VERSION     CTG_1.2
KEYWORDS    .
SOURCE      x
  ORGANISM  x
            .
FEATURES             Location/Qualifiers
CONTIG      join(AB000001.1:1..5000)
//
`

var locusLen = regexp.MustCompile(`^(LOCUS +\S+ +)(\d+)( bp)`)

type mutant struct {
	class string
	text  []byte
}

// mutantsOf yields the structure-aware mutants of one record text.
func mutantsOf(o *Out, text string, everyOffset bool) []mutant {
	r := o.Rng
	var out []mutant
	add := func(class string, t string) { out = append(out, mutant{class, []byte(t)}) }
	// truncation
	step := 1
	if !everyOffset {
		step = 1 + len(text)/150
	}
	for i := 0; i < len(text); i += step {
		add("truncate", text[:i])
	}
	lines := strings.SplitAfter(text, "\n")
	if lines[len(lines)-1] == "" {
		lines = lines[:len(lines)-1]
	}
	joinExcept := func(skip int, repl []string) string {
		var b strings.Builder
		for i, l := range lines {
			if i == skip {
				for _, x := range repl {
					b.WriteString(x)
				}
				continue
			}
			b.WriteString(l)
		}
		return b.String()
	}
	lineIdx := make([]int, 0, len(lines))
	for i := range lines {
		if everyOffset || len(lines) < 60 || r.Intn(len(lines)) < 60 {
			lineIdx = append(lineIdx, i)
		}
	}
	for _, i := range lineIdx {
		l := lines[i]
		add("line-delete", joinExcept(i, nil))
		add("line-duplicate", joinExcept(i, []string{l, l}))
		if i+1 < len(lines) {
			sw := append([]string(nil), lines...)
			sw[i], sw[i+1] = sw[i+1], sw[i]
			add("line-swap", strings.Join(sw, ""))
		}
		// indent shrink / grow
		if strings.HasPrefix(l, " ") {
			add("indent-shrink", joinExcept(i, []string{l[1:]}))
			add("indent-strip", joinExcept(i, []string{strings.TrimLeft(l, " ")}))
		}
		add("indent-grow", joinExcept(i, []string{" " + l}))
		// drop the value of a field: keep the first word
		body := strings.TrimRight(l, "\r\n")
		trimmed := strings.TrimLeft(body, " ")
		if j := strings.IndexByte(trimmed, ' '); j > 0 {
			name := body[:len(body)-len(trimmed)] + trimmed[:j]
			add("value-drop", joinExcept(i, []string{name + "\n"}))
			add("value-drop-keep-pad", joinExcept(i, []string{name + strings.Repeat(" ", 3) + "\n"}))
		}
		// cut the line short at a few places
		for _, c := range []int{1, 5, 11, 12, 13, 21, 22} {
			if c < len(body) {
				add("line-cut", joinExcept(i, []string{body[:c] + "\n"}))
			}
		}
		// empty line
		add("line-blank", joinExcept(i, []string{"\n"}))
	}
	// declared length
	if m := locusLen.FindStringSubmatch(text); m != nil {
		n := atoi(m[2])
		for _, d := range []int{n - 1, n + 1, n - 10, n + 10, n - 60, n + 60, 0, 1, 2 * n, 1000000, 60, 61} {
			if d < 0 || d == n {
				continue
			}
			s := itoa(d)
			pad := len(m[1]) + len(m[2]) - len(s)
			head := m[1]
			if pad < len(head) && pad > 0 {
				head = head[:pad]
			}
			add("declared-length", head+s+text[len(m[1])+len(m[2]):])
		}
		add("declared-length", strings.Replace(text, m[2]+" bp", "-"+m[2]+" bp", 1))
		add("declared-length", strings.Replace(text, m[2]+" bp", "99999999999999999999 bp", 1))
		// lengths far beyond the input: the reader must not size anything from them
		for _, huge := range []string{"1000000000", "1000000000000000", "4611686018427387904", "9223372036854775807"} {
			add("declared-length", strings.Replace(text, m[2]+" bp", huge+" bp", 1))
		}
	}
	// locus spacing: the indent depth every later field must match
	for _, d := range []int{1, 3, 5, 6, 11, 13, 20} {
		add("locus-depth", strings.Replace(text, "LOCUS       ", "LOCUS"+strings.Repeat(" ", d), 1))
	}
	add("locus-depth", strings.Replace(text, "LOCUS       ", "LOCUS", 1))
	// byte flips
	hostile := []byte("\n\r \t/\"=:;.,()<>^-0129AZaz_'\x00\xff")
	nflip := 150
	if everyOffset {
		nflip = 500
	}
	for k := 0; k < nflip; k++ {
		p := []byte(text)
		p[r.Intn(len(p))] = hostile[r.Intn(len(hostile))]
		out = append(out, mutant{"byte-flip", p})
	}
	for k := 0; k < nflip/3; k++ {
		p := []byte(text)
		i := r.Intn(len(p))
		if r.Intn(2) == 0 {
			p = append(p[:i:i], p[i+1:]...)
			out = append(out, mutant{"byte-delete", p})
		} else {
			q := append([]byte(nil), p[:i]...)
			q = append(q, hostile[r.Intn(len(hostile))])
			q = append(q, p[i:]...)
			out = append(out, mutant{"byte-insert", q})
		}
	}
	// CRLF, whole and partial
	add("crlf", strings.ReplaceAll(text, "\n", "\r\n"))
	for k := 0; k < 10; k++ {
		var b strings.Builder
		for _, l := range lines {
			if r.Intn(3) == 0 {
				b.WriteString(strings.Replace(l, "\n", "\r\n", 1))
			} else {
				b.WriteString(l)
			}
		}
		add("crlf-mixed", b.String())
	}
	add("bare-cr", strings.ReplaceAll(text, "\n", "\r"))
	return out
}

// c07Known classifies an oracle failure as a listed known finding.
var c07Known func(o *Out, kind string, class string, input []byte) bool

func residuesOf(text string) (total int, ok bool) {
	recs, clean := scanGenBank([]byte(text))
	if !clean {
		return 0, false
	}
	for _, r := range recs {
		total += r.Len()
	}
	return total, true
}

// originFellThrough recognises known finding K11: the ORIGIN field failed its
// own parser and was taken by the extra-field parser, the sequence lines were
// skipped, and the record was read with an empty sequence.
func originFellThrough(input []byte) bool {
	recs, _ := scanGenBank(input)
	if len(recs) == 0 {
		return false
	}
	for _, r := range recs {
		for _, e := range r.Fields.Extra {
			if e.Name == "ORIGIN" && r.Len() == 0 {
				return true
			}
		}
	}
	return false
}

type scanOutcome struct {
	status string // ok, err, panic, hang
	nrec   int
	clean  bool
}

func parseScanResult(res string) scanOutcome {
	if res == "panic" || res == "hang" || res == "err" {
		return scanOutcome{status: res}
	}
	xs := parseSx(res)
	return scanOutcome{status: "ok", nrec: len(xs[1].list), clean: xs[len(xs)-1].atom == "1"}
}

func runC07(o *Out) {
	// base texts: two hand-written records used at every offset, generated and corpus records sampled
	type base struct {
		name  string
		text  string
		every bool
	}
	bases := []base{{"small", smallRecord, true}, {"contig", contigRecord, true}}
	nGenBase := 3
	if o.Tier == "thorough" {
		nGenBase = 25
	}
	for i := 0; i < nGenBase; i++ {
		gb := genRecord(o, []int{0, 61, 130, 45}[i%4], 1+i%3)
		if t, ok := writeGB(gb); ok {
			bases = append(bases, base{fmt.Sprintf("gen%d", i), t, o.Tier == "thorough" && i < 4})
		}
	}
	for _, name := range []string{"NC_001422_part.gb", "pBAT5.txt", "NC_000913.3.min.gb", "NC_001422.gb"} {
		raw, err := ioutil.ReadFile("/repo/seqio/testdata/" + name)
		if err != nil {
			continue
		}
		if o.Tier != "thorough" && len(raw) > 9000 {
			continue
		}
		bases = append(bases, base{name, string(raw), false})
	}
	for _, b := range bases {
		origRecs, origClean := scanGenBank([]byte(b.text))
		if !origClean || len(origRecs) == 0 {
			o.Violate("base-unreadable", b.name, "")
			continue
		}
		hasOrigin := origRecs[0].Len() > 0 && strings.Contains(b.text, "\nORIGIN")
		ms := mutantsOf(o, b.text, b.every)
		if !b.every {
			// sample the mutants of large texts (the model evaluates a 26 kB record in seconds)
			limit := 400
			if o.Tier == "thorough" {
				limit = 1500
				if len(b.text) > 9000 {
					limit = 200
				}
			}
			o.Rng.Shuffle(len(ms), func(i, j int) { ms[i], ms[j] = ms[j], ms[i] })
			if len(ms) > limit {
				ms = ms[:limit]
			}
		}
		for _, m := range ms {
			line := join("gb_scan", hx(m.text))
			res := o.Run(m.class, true, "gb_scan", hx(m.text))
			out := parseScanResult(res)
			if out.status == "panic" || out.status == "hang" {
				if c07Known != nil && c07Known(o, out.status, m.class, m.text) {
					continue
				}
				o.Violate("reader-"+out.status, line, b.name+" "+m.class)
				continue
			}
			switch m.class {
			case "declared-length":
				// a declared length that differs from the residues present is an error
				if hasOrigin && out.clean && out.nrec == len(origRecs) {
					if originFellThrough(m.text) {
						o.KnownFinding("K11")
						continue
					}
					o.Violate("inconsistent-length-accepted", line, b.name)
				}
			case "truncate":
				// a record cut short is an error unless only line ends after the terminator were lost
				cut := len(m.text)
				complete := cut >= len(strings.TrimRight(b.text, "\r\n"))
				if !complete && out.clean && out.nrec >= len(origRecs) {
					o.Violate("truncated-read-as-complete", line, fmt.Sprintf("%s cut at %d", b.name, cut))
				}
				if !complete && out.clean && cut > 0 && out.nrec < len(origRecs) {
					if c07Known != nil && c07Known(o, "truncated-silently-dropped", m.class, m.text) {
						continue
					}
					o.Violate("truncated-silently-dropped", line, fmt.Sprintf("%s cut at %d of %d: %d records, no error", b.name, cut, len(b.text), out.nrec))
				}
			}
		}
		// the auto-detecting scanner on a sample of the same mutants
		for i, m := range ms {
			if i%7 != 0 {
				continue
			}
			res := o.Run("auto:"+m.class, true, "auto_scan", hx(m.text))
			if res == "panic" || res == "hang" {
				o.Violate("autoscan-"+res, join("auto_scan", hx(m.text)), b.name+" "+m.class)
			}
		}
	}
	// a later record of a stream cut short: an error, also for a caller that asks
	// the stopped scanner again before reading its verdict
	for _, pair := range [][2]string{{smallRecord, smallRecord}, {contigRecord, smallRecord}, {smallRecord, contigRecord}} {
		stream := pair[0] + pair[1]
		step := 1
		if o.Tier != "thorough" {
			step = 3
		}
		for cut := len(pair[0]) + 1 + int(o.Seed)%step; cut < len(strings.TrimRight(stream, "\n")); cut += step {
			t := stream[:cut]
			res := o.Run("truncate-later-record", true, "gb_scan", hxs(t))
			out := parseScanResult(res)
			if out.status == "panic" || out.status == "hang" {
				o.Violate("reader-"+out.status, join("gb_scan", hxs(t)), "stream cut in its second record")
			} else if out.clean {
				o.Violate("truncated-read-as-complete", join("gb_scan", hxs(t)), fmt.Sprintf("two-record stream cut at %d of %d: %d records, no error", cut, len(stream), out.nrec))
			}
		}
	}
	// the gap after the LOCUS keyword sets the indent of the whole header: records
	// indented far wider than usual, whole and cut short
	for _, w := range []int{13, 20, 33, 34, 40, 45, 46, 47, 60, 90} {
		for _, base := range []string{smallRecord, contigRecord} {
			t := widenHeader(base, w)
			res := o.Run("wide-indent", true, "gb_scan", hxs(t))
			if res == "panic" || res == "hang" {
				o.Violate("reader-"+res, join("gb_scan", hxs(t)), fmt.Sprintf("header indented by %d", w))
			} else if out := parseScanResult(res); !out.clean || out.nrec != 1 {
				o.Violate("wide-indent-record-rejected", join("gb_scan", hxs(t)), fmt.Sprintf("header indented by %d", w))
			}
			for cut := 1 + int(o.Seed)%5; cut < len(t); cut += 5 {
				res := o.Run("wide-indent-truncated", true, "gb_scan", hxs(t[:cut]))
				if res == "panic" || res == "hang" {
					o.Violate("reader-"+res, join("gb_scan", hxs(t[:cut])), fmt.Sprintf("header indented by %d, cut at %d", w, cut))
				}
			}
		}
	}
	// regression inputs named by the property
	for _, t := range []string{
		strings.Replace(smallRecord, "DBLINK      BioProject: PRJNA1", "DBLINK      BioProject:", 1),
		strings.Replace(smallRecord, "            KEGG BRITE: X1", "            X:", 1),
		strings.Replace(smallRecord, "PRIMARY     extra field", "VERYLONGFIELDNAME extra", 1),
		strings.Replace(smallRecord, "LOCUS       ", "LOCUS  ", 1),
		strings.Replace(smallRecord, "REFERENCE   1  (bases", "REFERENCE   1000  (bases", 1),
		strings.Replace(smallRecord, "REFERENCE   1  (bases", "REFERENCE   -100(bases", 1),
		smallRecord[:strings.Index(smallRecord, "       61")],
		smallRecord[:strings.Index(smallRecord, "       61")+20],
		"LOCUS", "LOCUS ", "LOCUS X", "LOCUS X 1 bp", "LOCUS X 1 bp DNA linear 01-JAN-2000", "//", "\n", "",
	} {
		res := o.Run("regression", true, "gb_scan", hxs(t))
		if res == "panic" || res == "hang" {
			o.Violate("reader-"+res, join("gb_scan", hxs(t)), "regression input")
		}
		o.Run("auto:regression", true, "auto_scan", hxs(t))
	}
	// arbitrary bytes over the alphabet of the format
	nArb := 1500
	if o.Tier == "thorough" {
		nArb = 20000
	}
	frags := []string{"LOCUS", "       ", "  ", "\n", "//", "ORIGIN", "FEATURES", "DEFINITION", "SOURCE", "ORGANISM", "REFERENCE", "AUTHORS",
		"DBLINK", "KEYWORDS", "CONTIG", "join(", "1..5", ":", ".", "/x=", "\"", "bp", "DNA", "linear", "01-JAN-2000", "5", " 1 acgt", ">", "acgt", "\r\n", "     gene            ", "                     /", "X", "complement("}
	for k := 0; k < nArb; k++ {
		var b bytes.Buffer
		if k%2 == 0 {
			b.WriteString("LOCUS       X  5 bp DNA linear 01-JAN-2000\n")
		}
		for n := o.Rng.Intn(14); n > 0; n-- {
			b.WriteString(frags[o.Rng.Intn(len(frags))])
		}
		op := "gb_scan"
		if k%5 == 0 {
			op = "auto_scan"
		}
		res := o.Run("arbitrary", true, op, hx(b.Bytes()))
		if res == "panic" || res == "hang" {
			o.Violate("reader-"+res, join(op, hx(b.Bytes())), "arbitrary bytes")
		}
	}
	// the string interpreters
	runC07Strings(o)
	// time proportional to the input
	if o.Tier == "thorough" {
		runC07Timing(o)
	}
}

// widenHeader re-indents the header fields (everything before FEATURES) of a
// record written with the usual indent of 12 to an indent of w.
func widenHeader(text string, w int) string {
	lines := strings.SplitAfter(text, "\n")
	var b strings.Builder
	header := true
	for _, ln := range lines {
		if strings.HasPrefix(ln, "FEATURES") || strings.HasPrefix(ln, "ORIGIN") || strings.HasPrefix(ln, "//") {
			header = false
		}
		if !(header || strings.HasPrefix(ln, "CONTIG")) || len(ln) < 12 {
			b.WriteString(ln)
			continue
		}
		name := strings.TrimRight(ln[:12], " ")
		b.WriteString(name + strings.Repeat(" ", w-len(name)) + ln[12:])
	}
	return b.String()
}

// strMutants: valid strings and their mutants for the string interpreters
func strMutants(o *Out, valid []string, n int) []string {
	r := o.Rng
	hostile := "()<>.^,:;-+/\\\"' @0123456789joincmplentrdxX\n\x00"
	out := append([]string(nil), valid...)
	for _, v := range valid {
		for i := 0; i <= len(v); i++ {
			out = append(out, v[:i])
		}
		for k := 0; k < n; k++ {
			p := []byte(v)
			if len(p) == 0 {
				continue
			}
			switch r.Intn(3) {
			case 0:
				p[r.Intn(len(p))] = hostile[r.Intn(len(hostile))]
			case 1:
				i := r.Intn(len(p))
				p = append(p[:i:i], p[i+1:]...)
			default:
				i := r.Intn(len(p) + 1)
				q := append([]byte(nil), p[:i]...)
				q = append(q, hostile[r.Intn(len(hostile))])
				p = append(q, p[i:]...)
			}
			out = append(out, string(p))
		}
	}
	for k := 0; k < n*4; k++ {
		out = append(out, rstr(r, hostile, 0, 24))
	}
	return out
}

func probe(o *Out, class, input string, f func()) {
	o.Dist[class]++
	res := timed(func() string { f(); return "ok" })
	if res != "ok" {
		o.Violate("interpreter-"+res, class+" "+hxs(input), fmt.Sprintf("%.80q", input))
	}
}

func runC07Strings(o *Out) {
	n := 6
	if o.Tier == "thorough" {
		n = 60
	}
	locs := []string{"1", "1..5", "<1..>5", "1^2", "1.5", "complement(1..5)", "join(1..5,7..9)", "order(1,3..4,complement(6^7))",
		"complement(join(<1..5,7..>9))", "join(complement(4..9),complement(1..2))", "9223372036854775807..9223372036854775808", "(1.5)..9"}
	for _, s := range strMutants(o, locs, n) {
		res := o.Run("location", true, "as_location", hxs(s))
		if res == "panic" || res == "hang" {
			o.Violate("interpreter-"+res, join("as_location", hxs(s)), "")
		}
	}
	// every pair of ranges over 1..6, ascending, descending, abutting or not, as a
	// join, an order and under complements: coordinates out of order are data the
	// reader must survive (it may reject them; it may not panic)
	for a := 1; a <= 6; a++ {
		for b := 1; b <= 6; b++ {
			for c := 1; c <= 6; c++ {
				for d := 1; d <= 6; d++ {
					if o.Tier != "thorough" && (a+b+c+d)%3 != int(o.Seed%3) {
						continue
					}
					for _, f := range []string{"join(%d..%d,%d..%d)", "join(complement(%d..%d),complement(%d..%d))", "order(<%d..>%d,join(%d..%d,9..10))", "complement(join(<%d..>%d,<%d..>%d,9))"} {
						s := fmt.Sprintf(f, a, b, c, d)
						res := o.Run("location-pairs", true, "as_location", hxs(s))
						if res == "panic" || res == "hang" {
							o.Violate("interpreter-"+res, join("as_location", hxs(s)), s)
						}
					}
				}
			}
		}
	}
	dates := []string{"01-JAN-2000", "29-FEB-2004", "29-FEB-1900", "31-APR-2001", "1-Jan-1", "01-01-2000", "00-JAN-2000", "32-DEC-1999", "--", "1-JAN-99999999999999999999"}
	for _, s := range strMutants(o, dates, n) {
		o.Run("date", true, "as_date", hxs(s))
	}
	tables := []string{
		"     source          1..70\n                     /organism=\"x\"\n     gene            5..9\n                     /pseudo\n",
		"     CDS             join(1..3,\n                     5..9)\n                     /codon_start=1\n                     /note=\"a\n                     b\"\n",
		" a 1\n", "     gene            1..2\n                     /x\n                     /x=1\n                     /x=\"q\"\n",
	}
	for _, s := range strMutants(o, tables, n) {
		res := o.Run("table", true, "table_parse", hxs(s))
		if res == "panic" || res == "hang" {
			o.Violate("interpreter-"+res, join("table_parse", hxs(s)), "")
		}
	}
	// interpreters without a model of their own: no panic, no hang
	locators := []string{"1..5", "^..$", "$-5..$", "gene", "CDS/gene=abc", "@1..5", "3", "^+3..^+9", "gene/locus_tag=b0001^-100..^", "1..5,7..9"}
	for _, s := range strMutants(o, locators, n) {
		s := s
		probe(o, "locator", s, func() { gts.AsLocator(s) })
	}
	mods := []string{"^", "$", "^+3", "^-3..$+3", "$-5..$", "^..^+10", "+3..-3", "^-1..^+1", "$..^"}
	for _, s := range strMutants(o, mods, n) {
		s := s
		probe(o, "modifier", s, func() { gts.AsModifier(s) })
	}
	sels := []string{"gene", "CDS/gene=abc", "/note", "gene/locus_tag=b.*1/pseudo", "CDS/product=a\\/b", "/", "a/b=(", "gene/=x"}
	for _, s := range strMutants(o, sels, n) {
		s := s
		probe(o, "selector", s, func() { gts.Selector(s) })
	}
	for _, s := range strMutants(o, []string{"DNA", "RNA", "AA", "ss-DNA", "ds-DNA", "linear", "circular", "Circular"}, n) {
		s := s
		probe(o, "molecule-topology", s, func() { gts.AsMolecule(s); gts.AsTopology(s) })
	}
}

// runC07Timing: scanning time grows no faster than the input (within a
// generous factor), measured on records of doubling size.
func runC07Timing(o *Out) {
	mk := func(n int, broken bool) []byte {
		gb := genRecord(o, n, 4)
		for i := 0; i < n/40; i++ {
			gb.Table = append(gb.Table, rfeature(o, n))
		}
		t, _ := writeGB(gb)
		if broken {
			t = t[:len(t)*3/4]
		}
		return []byte(t)
	}
	for _, broken := range []bool{false, true} {
		var prev time.Duration
		var prevLen int
		for _, n := range []int{4000, 8000, 16000, 32000, 64000} {
			text := mk(n, broken)
			best := time.Hour
			for rep := 0; rep < 3; rep++ {
				st := time.Now()
				scanGenBank(text)
				if d := time.Since(st); d < best {
					best = d
				}
			}
			o.Dist[fmt.Sprintf("timing:%dB:%dus", len(text), best.Microseconds())]++
			if prev > 2*time.Millisecond {
				ratio := float64(best) / float64(prev)
				grow := float64(len(text)) / float64(prevLen)
				if ratio > 3*grow {
					o.Violate("superlinear-time", fmt.Sprintf("record of %d bytes", len(text)), fmt.Sprintf("time x%.1f for input x%.1f", ratio, grow))
				}
			}
			prev, prevLen = best, len(text)
		}
	}
	var _ = seqio.GenBankFile
}
