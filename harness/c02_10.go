package main

import (
	"bytes"
	"fmt"
	"os"
	"reflect"
	"strings"

	"github.com/go-gts/gts"
	"github.com/go-gts/gts/seqio"
)

func maxInt(a, b int) int {
	if a > b {
		return a
	}
	return b
}

func init() {
	props["C02"] = runC02
	props["C03"] = runC03
	props["C04"] = runC04
	props["C05"] = runC05
	props["C10"] = runC10
}

// ---------------------------------------------------------------- helpers

func mapDen(d []dpos, f func(dpos) (dpos, bool)) []dpos {
	var out []dpos
	for _, x := range d {
		if y, ok := f(x); ok {
			out = append(out, y)
		}
	}
	return out
}

// flatParts returns the parts of a join after applying op to each, with
// nested joins flattened (as Push does).
func flatParts(ls []gts.Location) []gts.Location {
	var out []gts.Location
	for _, l := range ls {
		if j, ok := l.(gts.Joined); ok {
			out = append(out, flatParts([]gts.Location(j))...)
		} else {
			out = append(out, l)
		}
	}
	return out
}

// k1 reports whether joining the parts hits known finding K1: a point that
// lies just past the end of the range kept before it (Join drops that base).
// The reduction is replayed with the real LocationList.
func k1(parts []gts.Location) bool {
	fp := flatParts(parts)
	list := gts.LocationList{}
	for _, cur := range fp {
		if list.Len() > 0 {
			sl := list.Slice()
			last := sl[len(sl)-1]
			if r, ok := last.(gts.Ranged); ok {
				if p, ok := cur.(gts.Point); ok && r.End == int(p) {
					return true
				}
			}
			// complemented pairs are re-joined in reverse order
			a, ok1 := last.(gts.Complemented)
			b, ok2 := cur.(gts.Complemented)
			if ok1 && ok2 && k1([]gts.Location{b.Location, a.Location}) {
				return true
			}
		}
		func() {
			defer func() { recover() }()
			list.Push(cur, true)
		}()
	}
	return false
}

// k4 reports known finding K4: a zero-length site that is absorbed by the
// part after it, which leaves two parts next to each other that Join would
// have merged (Join is not idempotent there; join(5,4^5,5) prints join(5,5)).
func k4(parts []gts.Location) bool {
	fp := flatParts(parts)
	for i := 1; i+1 < len(fp); i++ {
		b, ok := fp[i].(gts.Between)
		if !ok {
			continue
		}
		switch u := fp[i+1].(type) {
		case gts.Point:
			if int(b) == int(u) {
				return true
			}
		case gts.Ranged:
			if int(b) == u.Start {
				return true
			}
		}
	}
	for i := 0; i+1 < len(fp); i++ {
		a, ok1 := fp[i].(gts.Complemented)
		c, ok2 := fp[i+1].(gts.Complemented)
		if ok1 && ok2 && k4([]gts.Location{c.Location, a.Location}) {
			return true
		}
	}
	return false
}

// k1After reports whether applying op part-wise anywhere inside l produces
// the K1 pattern at a join.
func k1After(l gts.Location, op func(gts.Location) gts.Location) bool {
	switch v := l.(type) {
	case gts.Joined:
		parts := make([]gts.Location, len(v))
		for i, e := range v {
			if k1After(e, op) {
				return true
			}
			parts[i] = op(e)
		}
		return k1(parts)
	case gts.Ordered:
		for _, e := range v {
			if k1After(e, op) {
				return true
			}
		}
	case gts.Complemented:
		return k1After(v.Location, op)
	}
	return false
}

func hasAmbiguous(l gts.Location) bool {
	switch v := l.(type) {
	case gts.Ambiguous:
		return true
	case gts.Joined:
		for _, e := range v {
			if hasAmbiguous(e) {
				return true
			}
		}
	case gts.Ordered:
		for _, e := range v {
			if hasAmbiguous(e) {
				return true
			}
		}
	case gts.Complemented:
		return hasAmbiguous(v.Location)
	}
	return false
}

func findFeature(ff []gts.Feature, key string) (gts.Feature, int) {
	n, idx := 0, -1
	for i, f := range ff {
		if f.Key == key {
			n++
			idx = i
		}
	}
	if idx < 0 {
		return gts.Feature{}, 0
	}
	return ff[idx], n
}

func safeLoc(f func() gts.Location) (l gts.Location, ok bool) {
	defer func() {
		if r := recover(); r != nil {
			ok = false
		}
	}()
	return f(), true
}

func safeSeq(f func() gts.Sequence) (s gts.Sequence, ok bool) {
	defer func() {
		if r := recover(); r != nil {
			ok = false
		}
	}()
	return f(), true
}

func coordsIn(l gts.Location, lo, hi int) bool {
	switch v := l.(type) {
	case gts.Between:
		return lo <= int(v) && int(v) <= hi
	case gts.Point:
		return lo <= int(v) && int(v) < hi
	case gts.Ranged:
		return lo <= v.Start && v.End <= hi && v.Start < v.End
	case gts.Ambiguous:
		return lo <= v.Start && v.End <= hi
	case gts.Joined:
		for _, e := range v {
			if !coordsIn(e, lo, hi) {
				return false
			}
		}
		return true
	case gts.Ordered:
		for _, e := range v {
			if !coordsIn(e, lo, hi) {
				return false
			}
		}
		return true
	case gts.Complemented:
		return coordsIn(v.Location, lo, hi)
	}
	return false
}

// ---------------------------------------------------------------- C02

func runC02(o *Out) {
	L := 8
	fam := family(L, o.Tier == "thorough")
	guestLens := []int{0, 1, 3}
	guestFeat := []gts.Location{gts.Range(0, 1), gts.Between(0), gts.Point(0), gts.Complemented{Location: gts.PartialRange(0, 1, gts.Partial5)}}
	host := letters(L)
	cnt := 0
	for _, l := range fam {
		for i := 0; i <= L; i++ {
			for _, n := range guestLens {
				cnt++
				if o.Tier != "thorough" && isMulti(l) && (cnt%3 != int(o.Seed%3)) {
					continue
				}
				// location level
				o.Run("shift", n > 0, "loc_shift", locSx(l), itoa(i), itoa(n))
				o.Run("expand", n > 0, "loc_expand", locSx(l), itoa(i), itoa(n))
				checkInsertLoc(o, l, i, n, false)
				checkInsertLoc(o, l, i, n, true)
			}
		}
	}
	// sequence level: one host feature of each shape + source, one guest feature
	for k, l := range fam {
		if o.Tier != "thorough" && k%4 != int(o.Seed%4) {
			continue
		}
		for i := 0; i <= L; i += 1 {
			n := guestLens[(k+i)%3]
			guest := bytes.Repeat([]byte("X"), n)
			var gf gts.FeatureSlice
			if n > 0 {
				gf = gf.Insert(mkFeat("guestf", guestFeat[(k+i)%len(guestFeat)]))
			}
			hf := gts.FeatureSlice{}
			hf = hf.Insert(mkFeat("source", gts.Range(0, L)))
			hf = hf.Insert(mkFeat("hostf", l))
			hf = hf.Insert(mkFeat("other", gts.Range(2, 5)))
			hs := gts.New(nil, hf, append([]byte(nil), host...))
			gs := gts.New(nil, gf, guest)
			for _, op := range []string{"seq_insert", "seq_embed"} {
				res := o.Run(op, true, op, seqSx(hs), itoa(i), seqSx(gs))
				checkInsertSeq(o, op, hs, i, gs, res)
			}
		}
	}
	// hosts and guests without a feature table, in every combination
	for _, hasHF := range []bool{false, true} {
		for _, hasGF := range []bool{false, true} {
			for i := 0; i <= L; i += 2 {
				var hf, gf gts.FeatureSlice
				if hasHF {
					hf = hf.Insert(mkFeat("hostf", gts.Range(1, 6)))
				}
				if hasGF {
					gf = gf.Insert(mkFeat("guestf", gts.Range(0, 2)))
				}
				hs := gts.New(nil, hf, append([]byte(nil), host...))
				gs := gts.New(nil, gf, []byte("XXX"))
				for _, op := range []string{"seq_insert", "seq_embed"} {
					res := o.Run(op+"-bare", true, op, seqSx(hs), itoa(i), seqSx(gs))
					checkInsertSeq(o, op, hs, i, gs, res)
				}
			}
		}
	}
	// random tables
	nr := 300
	if o.Tier == "thorough" {
		nr = 20000
	}
	for k := 0; k < nr; k++ {
		hl := 4 + o.Rng.Intn(20)
		var hf gts.FeatureSlice
		hf = hf.Insert(mkFeat("source", gts.Range(0, hl)))
		for j := o.Rng.Intn(6); j > 0; j-- {
			hf = hf.Insert(mkFeat(fmt.Sprintf("f%d", j), randLoc(o, hl, 2)))
		}
		gl := o.Rng.Intn(5)
		var gf gts.FeatureSlice
		for j := o.Rng.Intn(3); j > 0 && gl > 0; j-- {
			gf = gf.Insert(mkFeat(fmt.Sprintf("g%d", j), randLoc(o, gl, 1)))
		}
		hs := gts.New(nil, hf, letters(hl))
		gs := gts.New(nil, gf, bytes.Repeat([]byte("X"), gl))
		i := o.Rng.Intn(hl + 1)
		for _, op := range []string{"seq_insert", "seq_embed"} {
			res := o.Run(op+"-random", true, op, seqSx(hs), itoa(i), seqSx(gs))
			checkInsertSeq(o, op, hs, i, gs, res)
		}
	}
	runC02CLI(o)
}

// gts insert / gts infix: the guest is placed exactly at every located 5'
// position (input coordinates), one site and several, both strands.
func runC02CLI(o *Out) {
	if _, err := os.Stat(gtsBin); err != nil {
		return
	}
	rec := mkRecord(gts.Linear, 60)
	text := gbText(rec)
	parsed, ok := parseRecords(text)
	if !ok || len(parsed) != 1 {
		o.Violate("generated-record-unreadable", "mkRecord", "")
		return
	}
	plain := stripInfo(parsed[0])
	scenarioMultiGuest(o, text, plain, []string{"1", "13..20", "CDS", "misc_feature"})
	guestFa := []byte(">guest\nNNNN\n")
	for _, ls := range []string{"1", "7", "60", "13..20", "complement(12..18)", "gene", "CDS", "misc_feature", "regulatory", "CDS/gene=b", "CDS@$"} {
		rr, ok := regionsOf(ls, plain)
		if !ok {
			continue
		}
		for _, embed := range []bool{false, true} {
			args := []string{"insert", ls, "@NNNN"}
			iargs := []string{"infix", ls, "file:" + hx(text)[1:]}
			if embed {
				args = append(args, "-e")
				iargs = append(iargs, "-e")
			}
			lit := gts.New(nil, nil, []byte("NNNN"))
			res := o.Run("cli-insert", true, "plan_insert", argHex(args...), hx(text), "x", seqSx(plain), regListSx(rr), seqSx(lit), b2s(embed))
			checkInsertPlan(o, "insert "+ls, plain, rr, []byte("NNNN"), res)
			gparsed, _ := parseRecords(guestFa)
			gplain := gts.New(nil, gparsed[0].Features(), gparsed[0].Bytes())
			res2 := o.Run("cli-infix", true, "plan_insert", argHex(iargs...), hx(guestFa), "x", seqSx(plain), regListSx(rr), seqSx(gplain), b2s(embed))
			checkInsertPlan(o, "infix "+ls, plain, rr, []byte("NNNN"), res2)
		}
	}
}

// checkInsertLoc: the host-feature clause of C02 at the location level.
func checkInsertLoc(o *Out, l gts.Location, i, n int, embed bool) {
	name := "loc_shift"
	if embed {
		name = "loc_expand"
	}
	line := join(name, locSx(l), itoa(i), itoa(n))
	op := func(x gts.Location) gts.Location {
		if embed {
			return x.Expand(i, n)
		}
		return x.Shift(i, n)
	}
	got, ok := safeLoc(func() gts.Location { return op(l) })
	if !ok {
		o.Violate("panic", line, "")
		return
	}
	old := den(l)
	want := mapDen(old, func(d dpos) (dpos, bool) {
		if d.p >= i {
			d.p += n
		}
		return d, true
	})
	now := den(got)
	if embed {
		// residues of the guest interval belong to the feature iff it was
		// extended over the guest; they are not "its former residues"
		now = mapDen(now, func(d dpos) (dpos, bool) { return d, d.p < i || d.p >= i+n })
	}
	if !denEq(dedupAdj(want), dedupAdj(now)) {
		if k1After(l, op) {
			o.KnownFinding("K1")
		} else {
			o.Violate("host-feature-residues", line, fmt.Sprintf("got %s denoting %s, want %s", locSx(got), denSx(den(got)), denSx(want)))
		}
		return
	}
	a5, a3 := outerPartials(l)
	b5, b3 := outerPartials(got)
	// a location that denotes nothing afterwards has no ends to mark
	if len(old) > 0 && wellMarked(l) && (a5 != b5 || a3 != b3) {
		o.Violate("partial-markers-moved", line, fmt.Sprintf("got %s", locSx(got)))
	}
}

func checkInsertSeq(o *Out, op string, hs gts.Sequence, i int, gs gts.Sequence, res string) {
	line := join(op, seqSx(hs), itoa(i), seqSx(gs))
	if res == "panic" {
		o.Violate("panic", line, "")
		return
	}
	var out gts.Sequence
	if op == "seq_insert" {
		out = gts.Insert(hs, i, gs)
	} else {
		out = gts.Embed(hs, i, gs)
	}
	n := len(gs.Bytes())
	want := append(append(append([]byte(nil), hs.Bytes()[:i]...), gs.Bytes()...), hs.Bytes()[i:]...)
	if !bytes.Equal(out.Bytes(), want) {
		o.Violate("residues", line, fmt.Sprintf("got %q want %q", out.Bytes(), want))
	}
	if len(out.Features()) != len(hs.Features())+len(gs.Features()) {
		o.Violate("feature-count", line, "")
	}
	for _, f := range hs.Features() {
		g, cnt := findFeature(out.Features(), f.Key)
		if cnt != 1 {
			o.Violate("host-feature-not-once", line, f.Key)
			continue
		}
		if !reflect.DeepEqual(f.Props, g.Props) {
			o.Violate("qualifiers-changed", line, f.Key)
		}
	}
	for _, f := range gs.Features() {
		g, cnt := findFeature(out.Features(), f.Key)
		if cnt != 1 {
			o.Violate("guest-feature-not-once", line, f.Key)
			continue
		}
		want := mapDen(den(f.Loc), func(d dpos) (dpos, bool) { d.p += i; return d, true })
		if !denEq(dedupAdj(want), dedupAdj(den(g.Loc))) {
			o.Violate("guest-feature-residues", line, fmt.Sprintf("%s: got %s", f.Key, locSx(g.Loc)))
		}
	}
	// source features first
	seenOther := false
	for _, f := range out.Features() {
		if f.Key == "source" && seenOther {
			o.Violate("source-not-first", line, "")
		}
		if f.Key != "source" {
			seenOther = true
		}
	}
	_ = n
}

// ---------------------------------------------------------------- C03

func runC03(o *Out) {
	L := 9
	fam := family(L-1, o.Tier == "thorough")
	cnt := 0
	for _, l := range fam {
		for i := 0; i <= L; i++ {
			for n := 0; i+n <= L; n++ {
				if n > 4 && n != L-i {
					continue
				}
				cnt++
				if o.Tier != "thorough" && isMulti(l) && (cnt%4 != int(o.Seed%4)) {
					continue
				}
				o.Run("expand-neg", n > 0, "loc_expand", locSx(l), itoa(i), itoa(-n))
				checkDeleteLoc(o, l, i, n, L)
			}
		}
	}
	// sequence level
	seqs := 0
	for k, l := range fam {
		if o.Tier != "thorough" && k%5 != int(o.Seed%5) {
			continue
		}
		var hf gts.FeatureSlice
		// the source feature is not always the plain 1..L: open ends, several
		// parts, or covering only a stretch of the sequence
		sources := []gts.Location{gts.Range(0, L), gts.PartialRange(0, L, gts.PartialBoth),
			gts.Join(gts.PartialRange(0, 3, gts.Partial5), gts.PartialRange(4, L, gts.Partial3)), gts.Range(1, L-2),
			gts.Order(gts.Range(0, 4), gts.Range(4, L))}
		hf = hf.Insert(mkFeat("source", sources[(k/5)%len(sources)]))
		hf = hf.Insert(mkFeat("hostf", l))
		if k%4 == 3 {
			// a table as a file may list it: the source feature behind another feature
			// (every source is made complete by a slice, wherever it stands)
			hf = gts.FeatureSlice{mkFeat("hostf", l), mkFeat("source", sources[(k/5)%len(sources)])}
		}
		hs := gts.New(nil, hf, letters(L))
		resW := o.Run("seq_slice-whole", true, "seq_slice", seqSx(hs), "0", itoa(L))
		checkSliceSeq(o, hs, 0, L, resW)
		for i := 0; i <= L; i++ {
			for _, n := range []int{0, 1, 3, L - i} {
				if i+n > L || n < 0 {
					continue
				}
				seqs++
				for _, op := range []string{"seq_delete", "seq_erase"} {
					res := o.Run(op, n > 0, op, seqSx(hs), itoa(i), itoa(n))
					checkDeleteSeq(o, op, hs, i, n, res)
				}
			}
		}
		// windows incl. wrap-around and negative indices
		for s := -L; s <= L; s += 1 {
			for e := -L; e <= L; e += 2 {
				if (s+e+k)%3 != 0 {
					continue
				}
				res := o.Run("seq_slice", true, "seq_slice", seqSx(hs), itoa(s), itoa(e))
				checkSliceSeq(o, hs, s, e, res)
			}
		}
	}
	runC03Metadata(o)
}

// runC03Metadata: coordinate-bearing metadata follows a slice: the result is
// linear, and REFERENCE base ranges are clipped to the window, re-based,
// dropped when disjoint and renumbered consecutively.
func runC03Metadata(o *Out) {
	L := 40
	type rg struct{ a, b int }
	mkInfo := func(word string, rs []rg) string {
		parts := make([]string, len(rs))
		for i, r := range rs {
			parts[i] = fmt.Sprintf("%d to %d", r.a, r.b)
		}
		return fmt.Sprintf("(%s %s)", word, strings.Join(parts, "; "))
	}
	nrec := 60
	if o.Tier == "thorough" {
		nrec = 1500
	}
	for k := 0; k < nrec; k++ {
		mol := []gts.Molecule{gts.DNA, gts.AA, gts.RNA}[o.Rng.Intn(3)]
		var refs []seqio.Reference
		var ranges [][]rg
		nref := 1 + o.Rng.Intn(5)
		for i := 0; i < nref; i++ {
			var rs []rg
			for j, n := 0, 1+o.Rng.Intn(3); j < n; j++ {
				a := 1 + o.Rng.Intn(L)
				b := a + o.Rng.Intn(L-a+1)
				rs = append(rs, rg{a, b})
			}
			info := mkInfo(mol.Counter(), rs)
			switch o.Rng.Intn(9) {
			case 0:
				info, rs = "(sites)", nil // not a base range: kept as it is
			case 1:
				info, rs = "", nil
			case 2:
				info, rs = mkInfo("bases", []rg{{9, 3}}), nil // reversed range: does not parse, kept
			}
			refs = append(refs, seqio.Reference{Number: i + 1, Info: info, Title: fmt.Sprintf("t%d", i)})
			ranges = append(ranges, rs)
		}
		gb := seqio.GenBank{Fields: seqio.GenBankFields{LocusName: "R", Molecule: mol, Topology: gts.Topology(o.Rng.Intn(2)), References: refs},
			Origin: seqio.NewOrigin(letters(L))}
		var refSxs []string
		for _, r := range refs {
			refSxs = append(refSxs, refSx(r))
		}
		// windows: around every range edge, the whole sequence, empty, wrap-around
		wins := []rg{{0, L}, {0, 0}, {5, 5}, {L, L}, {3, 17}, {L - 6, 4}, {-10, -2}}
		for _, rs := range ranges {
			for _, r := range rs {
				wins = append(wins, rg{r.a - 1, r.b}, rg{r.b, L}, rg{0, r.a - 1}, rg{r.b - 1, r.b + 3}, rg{r.a - 2, r.a})
			}
		}
		for wi, w := range wins {
			if w.a < -L || w.b > L || w.a > L || w.b < -L {
				continue
			}
			if o.Tier != "thorough" && wi >= 7 && (wi+k)%3 != 0 {
				continue
			}
			caseLine := fmt.Sprintf("slice-metadata refs=%d window=[%d,%d) mol=%s", nref, w.a, w.b, mol)
			seq, ok := safeSeq(func() gts.Sequence { return gts.Slice(gb, w.a, w.b) })
			if !ok {
				o.Violate("slice-panics", caseLine, "")
				continue
			}
			info, isGB := seq.Info().(seqio.GenBankFields)
			if !isGB {
				o.Violate("slice-loses-metadata", caseLine, "")
				continue
			}
			if info.Topology != gts.Linear {
				o.Violate("slice-not-linear", caseLine, fmt.Sprintf("topology %v", info.Topology))
			}
			// forward windows: the reference handling against the model and the property
			s, e := w.a, w.b
			if s < 0 {
				s += L
			}
			if e < 0 {
				e += L
			}
			if e < s {
				continue
			}
			got := o.Run("refs-slice", true, "refs_slice", hxs(string(mol)), itoa(s), itoa(e), "("+strings.Join(refSxs, " ")+")")
			var gotRefs []string
			for _, r := range info.References {
				gotRefs = append(gotRefs, refSx(r))
			}
			if got != "ok ("+strings.Join(gotRefs, " ")+")" {
				o.Violate("slice-references-differ-from-Fields.Slice", caseLine, "")
			}
			// the property, computed here from the ranges
			var want []string
			for i, rs := range ranges {
				if rs == nil {
					want = append(want, refs[i].Title+"|"+refs[i].Info)
					continue
				}
				var parts []string
				for _, r := range rs {
					lo, hi := maxInt(r.a-1, s), minInt(r.b, e)
					if lo < hi {
						parts = append(parts, fmt.Sprintf("%d to %d", lo-s+1, hi-s))
					}
				}
				if len(parts) > 0 {
					want = append(want, refs[i].Title+"|"+fmt.Sprintf("(%s %s)", mol.Counter(), strings.Join(parts, "; ")))
				}
			}
			var have []string
			for i, r := range info.References {
				have = append(have, r.Title+"|"+r.Info)
				if r.Number != i+1 {
					o.Violate("references-not-renumbered", caseLine, fmt.Sprintf("reference %d has number %d", i+1, r.Number))
				}
			}
			if strings.Join(have, "\n") != strings.Join(want, "\n") {
				o.Violate("reference-ranges", caseLine, fmt.Sprintf("got %q want %q", have, want))
			}
		}
	}
}

func checkDeleteLoc(o *Out, l gts.Location, i, n, L int) {
	line := join("loc_expand", locSx(l), itoa(i), itoa(-n))
	op := func(x gts.Location) gts.Location { return x.Expand(i, -n) }
	got, ok := safeLoc(func() gts.Location { return op(l) })
	if !ok {
		o.Violate("panic", line, "")
		return
	}
	old := den(l)
	want := mapDen(old, func(d dpos) (dpos, bool) {
		if d.p >= i && d.p < i+n {
			return d, false
		}
		if d.p >= i+n {
			d.p -= n
		}
		return d, true
	})
	now := den(got)
	amb := hasAmbiguous(l)
	if !denEq(dedupAdj(want), dedupAdj(now)) {
		if k1After(l, op) {
			o.KnownFinding("K1")
		} else {
			o.Violate("surviving-residues", line, fmt.Sprintf("got %s denoting %s, want %s", locSx(got), denSx(now), denSx(want)))
		}
		return
	}
	if !coordsIn(got, 0, L-n) {
		o.Violate("out-of-bounds", line, fmt.Sprintf("got %s for new length %d", locSx(got), L-n))
	}
	if amb {
		return
	}
	// an end whose residues were cut off becomes partial, and only then
	if len(want) > 0 && n > 0 && wellMarked(l) {
		a5, a3 := outerPartials(l)
		b5, b3 := outerPartials(got)
		first, last := old[0], old[len(old)-1]
		cutFirst := first.p >= i && first.p < i+n
		cutLast := last.p >= i && last.p < i+n
		if !isMulti(l) {
			if b5 != (a5 || cutFirst) || b3 != (a3 || cutLast) {
				o.Violate("partial-on-cut", line, fmt.Sprintf("got %s", locSx(got)))
			}
		} else {
			// multi-part: the outer markers must at least not be lost
			if (a5 && !b5 && !cutFirst) || (a3 && !b3 && !cutLast) {
				o.Violate("partial-lost", line, fmt.Sprintf("got %s", locSx(got)))
			}
		}
	}
	if len(want) == 0 && len(old) > 0 && !isMulti(l) {
		if _, ok := stripC(got).(gts.Between); !ok {
			o.Violate("collapse", line, fmt.Sprintf("a feature that lost all residues must become a between-site, got %s", locSx(got)))
		} else if int(stripC(got).(gts.Between)) != i {
			o.Violate("collapse-site", line, fmt.Sprintf("between-site must be at the cut %d, got %s", i, locSx(got)))
		}
	}
}

// flags reports whether any Ranged inside l carries Partial5 / Partial3.
func flags(l gts.Location) (p5, p3 bool) {
	switch v := l.(type) {
	case gts.Ranged:
		return v.Partial.Partial5, v.Partial.Partial3
	case gts.Complemented:
		a, b := flags(v.Location)
		return a || b, a || b
	case gts.Joined:
		for _, e := range v {
			a, b := flags(e)
			p5, p3 = p5 || a, p3 || b
		}
	case gts.Ordered:
		for _, e := range v {
			a, b := flags(e)
			p5, p3 = p5 || a, p3 || b
		}
	}
	return
}

// wellMarked: partial markers occur only where INSDC allows them, on the
// outer ends of a multi-part location (5' marker in the first part, 3' marker
// in the last). The partial-marker clauses are claimed for such locations.
func wellMarked(l gts.Location) bool {
	check := func(ls []gts.Location) bool {
		for i, e := range ls {
			if !wellMarked(e) {
				return false
			}
			a, b := flags(e)
			if i > 0 && a {
				return false
			}
			if i < len(ls)-1 && b {
				return false
			}
		}
		return true
	}
	switch v := l.(type) {
	case gts.Joined:
		return check([]gts.Location(v))
	case gts.Ordered:
		return check([]gts.Location(v))
	case gts.Complemented:
		return wellMarked(v.Location)
	}
	return true
}

func dupFree(l gts.Location) bool {
	d := den(l)
	seen := map[dpos]bool{}
	for _, x := range d {
		k := dpos{x.p, false}
		if seen[k] {
			return false
		}
		seen[k] = true
	}
	return true
}

func doubleComplement(l gts.Location) bool {
	switch v := l.(type) {
	case gts.Complemented:
		if _, ok := v.Location.(gts.Complemented); ok {
			return true
		}
		return doubleComplement(v.Location)
	case gts.Joined:
		for _, e := range v {
			if doubleComplement(e) {
				return true
			}
		}
	case gts.Ordered:
		for _, e := range v {
			if doubleComplement(e) {
				return true
			}
		}
	}
	return false
}

func stripC(l gts.Location) gts.Location {
	if c, ok := l.(gts.Complemented); ok {
		return stripC(c.Location)
	}
	return l
}

func checkDeleteSeq(o *Out, op string, hs gts.Sequence, i, n int, res string) {
	line := join(op, seqSx(hs), itoa(i), itoa(n))
	if res == "panic" {
		o.Violate("panic", line, "")
		return
	}
	var out gts.Sequence
	arg := parseSeq(seqSx(hs))
	if op == "seq_delete" {
		out = gts.Delete(arg, i, n)
	} else {
		out = gts.Erase(arg, i, n)
	}
	if after := seqSx(arg); after != seqSx(hs) {
		o.Violate("delete-changed-its-argument", line, after)
	}
	want := append(append([]byte(nil), hs.Bytes()[:i]...), hs.Bytes()[i+n:]...)
	if !bytes.Equal(out.Bytes(), want) {
		o.Violate("residues", line, fmt.Sprintf("got %q want %q", out.Bytes(), want))
	}
	for _, f := range out.Features() {
		if !coordsIn(f.Loc, 0, len(want)) {
			o.Violate("out-of-bounds", line, locSx(f.Loc))
		}
	}
	if op == "seq_erase" {
		for _, f := range hs.Features() {
			_, cnt := findFeature(out.Features(), f.Key)
			inside := withinIndep(f.Loc, i, i+n) // written here, not gts.LocationWithin
			if f.Key != "source" && inside && cnt != 0 {
				o.Violate("erase-keeps-feature-inside", line, f.Key)
			}
			if (f.Key == "source" || !inside) && cnt != 1 {
				o.Violate("erase-drops-feature", line, f.Key)
			}
		}
	}
}

// withinIndep: every part of the location lies inside [lo,hi] (sites) / [lo,hi) (bases)
func withinIndep(l gts.Location, lo, hi int) bool {
	switch v := l.(type) {
	case gts.Between:
		return lo <= int(v) && int(v) <= hi
	case gts.Point:
		return lo <= int(v) && int(v)+1 <= hi
	case gts.Ranged:
		return lo <= v.Start && v.End <= hi
	case gts.Ambiguous:
		return lo <= v.Start && v.End <= hi
	case gts.Complemented:
		return withinIndep(v.Location, lo, hi)
	case gts.Joined:
		for _, e := range v {
			if !withinIndep(e, lo, hi) {
				return false
			}
		}
		return true
	case gts.Ordered:
		for _, e := range v {
			if !withinIndep(e, lo, hi) {
				return false
			}
		}
		return true
	}
	return false
}

func checkSliceSeq(o *Out, hs gts.Sequence, s, e int, res string) {
	line := join("seq_slice", seqSx(hs), itoa(s), itoa(e))
	L := len(hs.Bytes())
	if res == "panic" {
		o.Violate("panic", line, "")
		return
	}
	arg := parseSeq(seqSx(hs))
	out := gts.Slice(arg, s, e)
	if after := seqSx(arg); after != seqSx(hs) {
		o.Violate("slice-changed-its-argument", line, after)
	}
	s0, e0 := s, e
	if s0 < 0 {
		s0 += L
	}
	if e0 < 0 {
		e0 += L
	}
	var want []byte
	// position map old -> new
	pos := map[int]int{}
	if e0 < s0 {
		for x := s0; x < L; x++ {
			pos[x] = len(want)
			want = append(want, hs.Bytes()[x])
		}
		for x := 0; x < e0; x++ {
			pos[x] = len(want)
			want = append(want, hs.Bytes()[x])
		}
	} else {
		for x := s0; x < e0; x++ {
			pos[x] = len(want)
			want = append(want, hs.Bytes()[x])
		}
	}
	if !bytes.Equal(out.Bytes(), want) {
		o.Violate("window", line, fmt.Sprintf("got %q want %q", out.Bytes(), want))
		return
	}
	for _, f := range out.Features() {
		if !coordsIn(f.Loc, 0, len(want)) {
			o.Violate("out-of-bounds", line, locSx(f.Loc))
		}
	}
	if e0 < s0 {
		return // feature clauses through Rotate are C04's
	}
	for _, f := range hs.Features() {
		g, cnt := findFeature(out.Features(), f.Key)
		wantDen := mapDen(den(f.Loc), func(d dpos) (dpos, bool) {
			np, ok := pos[d.p]
			d.p = np
			return d, ok
		})
		if cnt == 0 {
			if len(wantDen) > 0 {
				o.Violate("slice-dropped-overlapping-feature", line, f.Key)
			}
			continue
		}
		if !denEq(dedupAdj(wantDen), dedupAdj(den(g.Loc))) {
			op := func(x gts.Location) gts.Location { return x.Expand(e0, e0-L).Expand(0, -s0) }
			op1 := func(x gts.Location) gts.Location { return x.Expand(e0, e0-L) }
			if k1After(f.Loc, op1) || k1After(f.Loc, op) {
				o.KnownFinding("K1")
			} else {
				o.Violate("slice-feature-residues", line, fmt.Sprintf("%s: got %s want %s", f.Key, locSx(g.Loc), denSx(wantDen)))
			}
		}
		if f.Key == "source" {
			if p5, p3 := outerPartials(g.Loc); p5 || p3 {
				o.Violate("source-partial-after-slice", line, locSx(g.Loc))
			}
		}
	}
}

// ---------------------------------------------------------------- C04

func runC04(o *Out) {
	// no residues: nothing to rotate, whatever the amount (and no crash)
	for _, n := range []int{0, 1, -1, 7} {
		for _, hs := range []gts.Sequence{gts.New(nil, nil, nil), gts.New(nil, gts.FeatureSlice{mkFeat("f", gts.Between(0))}, nil)} {
			res := o.Run("seq_rotate-empty", true, "seq_rotate", seqSx(hs), itoa(n))
			if res != "ok "+seqSx(hs) {
				o.Violate("rotate-empty-sequence", join("seq_rotate", seqSx(hs), itoa(n)), res)
			}
		}
	}
	maxL := 8
	for L := 1; L <= maxL; L++ {
		if o.Tier != "thorough" && L != 1 && L != 5 && L != maxL {
			continue
		}
		fam := family(L, false)
		if L < 7 {
			fam = dedupLocs(append(contiguousWithC(L), smallMulti(L)...))
		}
		cnt := 0
		for _, l := range fam {
			for n := -3 * L; n <= 3*L; n++ {
				// ambiguous spans only when they do not cross the new origin
				// (one that ends exactly at it does not cross it)
				if ambCrosses(l, ((n%L)+L)%L, L) {
					continue
				}
				cnt++
				if o.Tier != "thorough" && isMulti(l) && cnt%5 != int(o.Seed%5) {
					continue
				}
				var hf gts.FeatureSlice
				if cnt%3 == 1 {
					hf = hf.Insert(mkFeat("source", l))
				} else {
					hf = hf.Insert(mkFeat("f", l))
				}
				hs := gts.New(nil, hf, letters(L))
				res := o.Run("seq_rotate", n%L != 0, "seq_rotate", seqSx(hs), itoa(n))
				checkRotate(o, hs, l, L, n, res)
			}
		}
	}
	// normalize alone, incl. ambiguous and out-of-range inputs (correspondence only)
	for _, l := range family(8, false) {
		for _, L := range []int{3, 8} {
			o.Run("normalize", true, "loc_normalize", locSx(l), itoa(L))
		}
	}
}

// ambCrosses: some ambiguous span of l, moved n (0 <= n < L) places round a
// circle of L, would have bases on both sides of the origin.
func ambCrosses(l gts.Location, n, L int) bool {
	switch v := l.(type) {
	case gts.Ambiguous:
		if v.End <= v.Start {
			return true // not a span at all: outside the claim
		}
		return (v.Start+n)/L != (v.End+n-1)/L
	case gts.Joined:
		for _, e := range v {
			if ambCrosses(e, n, L) {
				return true
			}
		}
	case gts.Ordered:
		for _, e := range v {
			if ambCrosses(e, n, L) {
				return true
			}
		}
	case gts.Complemented:
		return ambCrosses(v.Location, n, L)
	}
	return false
}

func contiguousWithC(L int) []gts.Location {
	c := contiguous(L)
	out := append([]gts.Location(nil), c...)
	for _, l := range c {
		out = append(out, gts.Complemented{Location: l})
	}
	return out
}

func smallMulti(L int) []gts.Location {
	var out []gts.Location
	if L < 3 {
		return out
	}
	a, b, c := gts.Range(0, 1), gts.Range(L-1, L), gts.Point(L/2)
	out = append(out, gts.Join(a, b), gts.Join(b, a), gts.Order(a, c, b), gts.Join(a, c, b),
		gts.Complemented{Location: gts.Join(b, a)}, gts.Join(gts.Complemented{Location: b}, gts.Complemented{Location: a}),
		gts.Join(gts.PartialRange(L-2, L, gts.Partial5), gts.PartialRange(0, 1, gts.Partial3)))
	return out
}

func checkRotate(o *Out, hs gts.Sequence, l gts.Location, L, n int, res string) {
	line := join("seq_rotate", seqSx(hs), itoa(n))
	key := hs.Features()[0].Key // every key is relocated alike, source included
	if res == "panic" {
		o.Violate("panic", line, "")
		return
	}
	out := gts.Rotate(parseSeq(seqSx(hs)), n)
	mod := func(x int) int { return ((x % L) + L) % L }
	want := make([]byte, L)
	for k := 0; k < L; k++ {
		want[mod(k+n)] = hs.Bytes()[k]
	}
	if !bytes.Equal(out.Bytes(), want) {
		o.Violate("residues", line, fmt.Sprintf("got %q want %q", out.Bytes(), want))
		return
	}
	// the same rotation of an input whose residues sit in a larger buffer: the
	// result owns its bytes (nothing the caller does to the rest of that buffer,
	// or to the input, shows through), and the input is left as it was
	{
		buf := make([]byte, L, 3*L+4)
		copy(buf, hs.Bytes())
		in2 := gts.New(nil, hs.Features(), buf)
		out2 := gts.Rotate(in2, n)
		snap := append([]byte(nil), out2.Bytes()...)
		full := buf[:cap(buf)]
		for i := L; i < len(full); i++ {
			full[i] = '#'
		}
		if !bytes.Equal(out2.Bytes(), snap) || !bytes.Equal(snap, want) {
			o.Violate("rotate-result-shares-the-argument-buffer", line, fmt.Sprintf("%q after the caller wrote behind the input, want %q", out2.Bytes(), want))
		}
		if !bytes.Equal(buf, hs.Bytes()) {
			o.Violate("rotate-changed-its-argument", line, string(buf))
		}
	}
	g, cnt := findFeature(out.Features(), key)
	if cnt != 1 {
		o.Violate("feature-lost", line, "")
		return
	}
	wantDen := mapDen(den(l), func(d dpos) (dpos, bool) { d.p = mod(d.p + n); return d, true })
	fullLen := false
	if r, ok := stripC(l).(gts.Ranged); ok && r.End-r.Start == L {
		// a full-length feature stays full-length: same residues, read from the new origin
		fullLen = true
	}
	if fullLen {
		if len(den(g.Loc)) != L {
			o.Violate("full-length-not-preserved", line, locSx(g.Loc))
		}
	} else if !denEq(dedupAdj(wantDen), dedupAdj(den(g.Loc))) {
		nn := mod(n)
		op := func(x gts.Location) gts.Location { return x.Expand(0, nn).Normalize(L) }
		if k1After(l, op) {
			o.KnownFinding("K1")
		} else {
			o.Violate("feature-residues", line, fmt.Sprintf("got %s denoting %s, want %s", locSx(g.Loc), denSx(den(g.Loc)), denSx(wantDen)))
		}
		return
	}
	if !coordsIn(g.Loc, 0, L) {
		o.Violate("out-of-bounds", line, locSx(g.Loc))
	}
	if len(den(l)) > 0 && wellMarked(l) {
		a5, a3 := outerPartials(l)
		b5, b3 := outerPartials(g.Loc)
		if a5 != b5 || a3 != b3 {
			o.Violate("partial-markers-moved", line, fmt.Sprintf("got %s", locSx(g.Loc)))
		}
	}
	if r, ok := l.(gts.Ranged); ok && r.End-r.Start == L {
		if r2, ok := g.Loc.(gts.Ranged); !ok || r2.End-r2.Start != L {
			o.Violate("full-length-not-preserved", line, locSx(g.Loc))
		}
	}
	// additivity: rotate(a) then rotate(b) == rotate(a+b) on residues and denotation
	for _, b := range []int{1, -2, L} {
		two := gts.Rotate(gts.Rotate(parseSeq(seqSx(hs)), n), b)
		one := gts.Rotate(parseSeq(seqSx(hs)), n+b)
		if !bytes.Equal(two.Bytes(), one.Bytes()) {
			o.Violate("not-additive-residues", line, fmt.Sprintf("b=%d", b))
		}
		f2, _ := findFeature(two.Features(), key)
		f1, _ := findFeature(one.Features(), key)
		// a feature that became one full-length range after the first rotation is
		// re-based to 1..L by the second (Ranged.Normalize), like any full-length range
		midFull := false
		if r, ok := stripC(g.Loc).(gts.Ranged); ok && r.End-r.Start == L {
			midFull = true
		}
		if !fullLen && !midFull && !denEq(dedupAdj(den(f2.Loc)), dedupAdj(den(f1.Loc))) {
			op := func(x gts.Location) gts.Location { return x.Expand(0, mod(b)).Normalize(L) }
			if k1After(g.Loc, op) || k1After(l, func(x gts.Location) gts.Location { return x.Expand(0, mod(n+b)).Normalize(L) }) {
				o.KnownFinding("K1")
			} else {
				o.Violate("not-additive-features", line, fmt.Sprintf("b=%d: %s vs %s", b, locSx(f2.Loc), locSx(f1.Loc)))
			}
		}
	}
}

// ---------------------------------------------------------------- C05

func runC05(o *Out) {
	// Complement does not depend on what else ran before it in the process: here
	// Transcribe runs first (C18 runs them in the other order)
	if t := gts.Transcribe(gts.New(nil, nil, []byte("acgtACGT"))).Bytes(); string(t) != "ugcaUGCA" {
		o.Violate("transcribe", "seq_transcribe", string(t))
	}
	L := 8
	fam := family(L, true)
	// joins/orders of 4 and 5 parts
	pl := pool(L)
	for k := 0; k+4 < len(pl); k++ {
		fam = append(fam, gts.Join(pl[k], pl[k+1], pl[k+2], pl[k+3]), gts.Order(pl[k], pl[k+1], pl[k+2], pl[k+3], pl[k+4]),
			gts.Join(pl[k], pl[k+2], pl[k+4], pl[(k+6)%len(pl)], pl[(k+8)%len(pl)]),
			gts.Complemented{Location: gts.Order(pl[k+4], pl[k+2], pl[k])})
	}
	fam = dedupLocs(fam)
	// Complement on residues: an involution over the whole IUPAC alphabet in both
	// cases, every other byte unchanged; it pairs each code with the code of the
	// complementary base set (written out here, independent of the table in nucleotide.go)
	pairs := map[byte]byte{'a': 't', 'c': 'g', 'g': 'c', 't': 'a', 'u': 'a', 'r': 'y', 'y': 'r', 'k': 'm', 'm': 'k',
		'b': 'v', 'v': 'b', 'd': 'h', 'h': 'd', 's': 's', 'w': 'w', 'n': 'n'}
	for c := 0; c < 256; c++ {
		in := gts.New(nil, nil, []byte{byte(c), 'a', byte(c)})
		res := o.Run("complement-residue", true, "seq_complement", seqSx(in))
		out := gts.Complement(in).Bytes()
		want := byte(c)
		lc := byte(c) | 0x20
		if w, ok := pairs[lc]; ok && ((c >= 'a' && c <= 'z') || (c >= 'A' && c <= 'Z')) {
			want = w
			if c < 'a' {
				want = w - 0x20
			}
		}
		// s, w, n are not in gts's table: they stay as they are, which is also their complement
		if len(out) != 3 || out[0] != want || out[2] != want || out[1] != 't' {
			o.Violate("complement-residues", join("seq_complement", seqSx(in)), fmt.Sprintf("%q -> %q, want %q %s", []byte{byte(c)}, out, []byte{want}, res))
		}
		if c != 'u' && c != 'U' {
			back := gts.Complement(gts.Complement(in)).Bytes()
			if len(back) != 3 || back[0] != byte(c) {
				o.Violate("complement-not-involution", join("seq_complement", seqSx(in)), fmt.Sprintf("%q -> %q", []byte{byte(c)}, back))
			}
		}
	}
	seqAscii := []byte("acbdhvkm")
	// residues are bytes: a stray Latin-1 letter, a lone continuation byte and a
	// two-byte UTF-8 letter are reversed byte by byte like everything else
	seqBytes := []byte{0xe9, 'c', 0x80, 'd', 0xc3, 0xa9, 'k', 'm'}
	for k, l := range fam {
		if o.Tier != "thorough" && isMulti(l) && k%3 != int(o.Seed%3) {
			continue
		}
		seqb := seqAscii
		if k%4 == 2 {
			seqb = seqBytes
		}
		res := o.Run("reverse", true, "loc_reverse", locSx(l), itoa(L))
		o.Run("complement", true, "loc_complement", locSx(l))
		o.Run("region", true, "loc_region", locSx(l))
		o.Run("den", true, "loc_den", locSx(l))
		checkReverse(o, l, L, res)
		// reverse-complement preserves the extracted sequence
		var hf gts.FeatureSlice
		// every key is treated alike, the source feature included
		if k%2 == 0 {
			hf = hf.Insert(mkFeat("source", gts.Range(0, L)))
		}
		hf = hf.Insert(mkFeat("f", l))
		hs := gts.New(nil, hf, append([]byte(nil), seqb...))
		o.Run("seq_reverse", true, "seq_reverse", seqSx(hs))
		o.Run("seq_complement", true, "seq_complement", seqSx(hs))
		if coordsIn(l, 0, L) {
			o.Run("seq_locate", true, "seq_locate", regionSx(l.Region()), seqSx(hs))
		}
		checkRevComp(o, hs, l, "f")
		// the same under the key source when the location covers as many residues
		// as the sequence has (one-sidedly partial, in several parts, across the
		// origin): a source is mirrored like any other feature
		if len(den(l)) == L {
			ss := gts.New(nil, gts.FeatureSlice{mkFeat("source", l)}, append([]byte(nil), seqb...))
			o.Run("seq_reverse", true, "seq_reverse", seqSx(ss))
			checkRevComp(o, ss, l, "source")
			if rv, ok := safeSeq(func() gts.Sequence { return gts.Reverse(parseSeq(seqSx(ss))) }); ok {
				if g, n := findFeature(rv.Features(), "source"); n == 1 && wellMarked(l) {
					a5, a3 := outerPartials(l)
					b5, b3 := outerPartials(g.Loc)
					if a5 != b3 || a3 != b5 {
						o.Violate("reverse-partial-ends-not-swapped", join("seq_reverse", seqSx(ss)), locSx(g.Loc))
					}
				}
			}
		}
	}
}

func checkReverse(o *Out, l gts.Location, L int, res string) {
	line := join("loc_reverse", locSx(l), itoa(L))
	if res == "panic" {
		o.Violate("panic", line, "")
		return
	}
	got := l.Reverse(L)
	// parts in mirrored order: den(reverse l) = rev(map mirror (den l))
	old := den(l)
	want := make([]dpos, len(old))
	for i, d := range old {
		want[len(old)-1-i] = dpos{L - 1 - d.p, d.c}
	}
	if !denEq(dedupAdj(want), dedupAdj(den(got))) {
		op := func(x gts.Location) gts.Location { return x.Reverse(L) }
		if k1AfterRev(l, op) {
			o.KnownFinding("K1")
		} else {
			o.Violate("mirror", line, fmt.Sprintf("got %s denoting %s, want %s", locSx(got), denSx(den(got)), denSx(want)))
		}
		return
	}
	if len(old) > 0 && wellMarked(l) {
		a5, a3 := outerPartials(l)
		b5, b3 := outerPartials(got)
		if a5 != b3 || a3 != b5 {
			o.Violate("partials-not-swapped", line, locSx(got))
		}
	}
	// between-site g maps to L-g  (known finding K2: the code gives L-1-g)
	if b, ok := l.(gts.Between); ok {
		if g2, ok := got.(gts.Between); !ok || int(g2) != L-int(b) {
			o.KnownFinding("K2")
		}
	}
	// involution on the denotation
	back, ok := safeLoc(func() gts.Location { return got.Reverse(L) })
	if !ok {
		o.Violate("panic", line, "reverse of reverse")
		return
	}
	if !denEq(dedupAdj(den(back)), dedupAdj(old)) {
		if k1AfterRev(got, func(x gts.Location) gts.Location { return x.Reverse(L) }) {
			o.KnownFinding("K1")
		} else {
			o.Violate("reverse-not-involution", line, locSx(back))
		}
	}
	if !doubleComplement(l) && !reflect.DeepEqual(l.Complement().Complement(), l) {
		o.Violate("complement-not-involution", line, "")
	}
}

// k1AfterRev: like k1After but for Reverse, which also reverses part order.
func k1AfterRev(l gts.Location, op func(gts.Location) gts.Location) bool {
	switch v := l.(type) {
	case gts.Joined:
		parts := make([]gts.Location, len(v))
		for i, e := range v {
			if k1AfterRev(e, op) {
				return true
			}
			parts[len(v)-1-i] = op(e)
		}
		return k1(parts)
	case gts.Ordered:
		for _, e := range v {
			if k1AfterRev(e, op) {
				return true
			}
		}
	case gts.Complemented:
		return k1AfterRev(v.Location, op)
	}
	return false
}

func checkRevComp(o *Out, hs gts.Sequence, l gts.Location, key string) {
	L := len(hs.Bytes())
	// locations naming a base twice are reduced by Join (sanctioned by C06);
	// the extraction clause is claimed for duplicate-free locations
	if !coordsIn(l, 0, L) || !dupFree(l) {
		return
	}
	line := join("revcomp-extract", seqSx(hs))
	orig, ok := safeSeq(func() gts.Sequence { return l.Region().Locate(parseSeq(seqSx(hs))) })
	if !ok {
		o.Violate("panic", line, "Locate on the original")
		return
	}
	rc, ok := safeSeq(func() gts.Sequence { return gts.Reverse(gts.Complement(parseSeq(seqSx(hs)))) })
	if !ok {
		o.Violate("panic", line, "reverse-complement")
		return
	}
	if src, n := findFeature(rc.Features(), "source"); n == 1 && key != "source" {
		// the source feature of the reverse complement still extracts the whole original
		whole, ok := safeSeq(func() gts.Sequence { return src.Loc.Region().Locate(rc) })
		if !ok || !bytes.Equal(whole.Bytes(), hs.Bytes()) {
			o.Violate("revcomp-extract-source", line, fmt.Sprintf("source %s extracts %q", locSx(src.Loc), whole.Bytes()))
		}
	}
	f, cnt := findFeature(rc.Features(), key)
	if cnt != 1 {
		o.Violate("feature-lost", line, "")
		return
	}
	ext, ok := safeSeq(func() gts.Sequence { return f.Loc.Region().Locate(rc) })
	if !ok {
		o.Violate("panic", line, "Locate on the reverse complement")
		return
	}
	if !bytes.Equal(orig.Bytes(), ext.Bytes()) {
		if k1AfterRev(l, func(x gts.Location) gts.Location { return x.Reverse(L) }) {
			o.KnownFinding("K1")
			return
		}
		o.Violate("revcomp-extract", line, fmt.Sprintf("%s: %q from the original, %q from the reverse complement (%s)", locSx(l), orig.Bytes(), ext.Bytes(), locSx(f.Loc)))
	}
	// Reverse and Complement are involutions on residues (U read back as T: none here)
	rr := gts.Reverse(gts.Reverse(parseSeq(seqSx(hs))))
	cc := gts.Complement(gts.Complement(parseSeq(seqSx(hs))))
	if !bytes.Equal(rr.Bytes(), hs.Bytes()) || !bytes.Equal(cc.Bytes(), hs.Bytes()) {
		o.Violate("residue-involution", line, "")
	}
}

// ---------------------------------------------------------------- C10

func runC10(o *Out) {
	L := 8
	fam := family(L, o.Tier == "thorough")
	cnt := 0
	for _, l := range fam {
		for i := 0; i <= L; i++ {
			for _, n := range []int{1, 2, 3} {
				cnt++
				if o.Tier != "thorough" && isMulti(l) && cnt%3 != int(o.Seed%3) {
					continue
				}
				var hf gts.FeatureSlice
				hf = hf.Insert(mkFeat("f", l))
				hs := gts.New(nil, hf, letters(L))
				gs := gts.New(nil, nil, bytes.Repeat([]byte("X"), n))
				for _, op := range []string{"seq_insert", "seq_embed"} {
					mid := o.Run(op, true, op, seqSx(hs), itoa(i), seqSx(gs))
					if mid == "panic" {
						o.Violate("panic", join(op, seqSx(hs), itoa(i)), "")
						continue
					}
					midSeq := mid[3:]
					back := o.Run("delete-after-"+op, true, "seq_delete", midSeq, itoa(i), itoa(n))
					checkUndo(o, op, hs, l, i, n, back)
				}
			}
		}
	}
	// a feature listed twice (same key, location and qualifiers) is two features:
	// both come back from insert;delete, embed;delete and slice;concat
	for _, l := range []gts.Location{gts.Range(2, 5), gts.Join(gts.Range(0, 2), gts.Range(4, 6)), gts.Complemented{Location: gts.Point(3)}} {
		// built as a literal: the table under test is not assembled by the function under test
		hf := gts.FeatureSlice{mkFeat("source", gts.Range(0, L)), mkFeat("d", l), mkFeat("d", l)}
		hs := gts.New(nil, hf, letters(L))
		gs := gts.New(nil, nil, []byte("XX"))
		for _, i := range []int{0, 3, L} {
			for _, op := range []string{"seq_insert", "seq_embed"} {
				mid := o.Run(op+"-dup", true, op, seqSx(hs), itoa(i), seqSx(gs))
				if !strings.HasPrefix(mid, "ok ") {
					continue
				}
				back := o.Run("delete-after-"+op+"-dup", true, "seq_delete", mid[3:], itoa(i), "2")
				if strings.HasPrefix(back, "ok ") {
					if _, cnt := findFeature(parseSeq(back[3:]).Features(), "d"); cnt != 2 {
						o.Violate("duplicate-feature-lost", join(op+";seq_delete", seqSx(hs), itoa(i)), fmt.Sprintf("%d of 2 copies left", cnt))
					}
				}
			}
			a, b := gts.Slice(parseSeq(seqSx(hs)), 0, i), gts.Slice(parseSeq(seqSx(hs)), i, L)
			o.Run("slice-dup", true, "seq_slice", seqSx(hs), "0", itoa(i))
			o.Run("slice-dup", true, "seq_slice", seqSx(hs), itoa(i), itoa(L))
			o.Run("concat-dup", true, "seq_concat", "("+seqSx(a)+" "+seqSx(b)+")")
		}
	}
	// cut sets and concat
	cuts := [][]int{{}, {3}, {0}, {L}, {2, 5}, {2, 2}, {1, 4, 6}, {0, 4, L}, {1, 3, 5, 7}}
	// features of three and four parts: a piece may hold an inner part only
	manyParts := []gts.Location{
		gts.Join(gts.Range(0, 1), gts.Range(3, 4), gts.Range(6, 8)),
		gts.Order(gts.Range(0, 1), gts.Point(3), gts.Range(6, 8)),
		gts.Complemented{Location: gts.Join(gts.Range(0, 2), gts.Range(3, 4), gts.Range(5, 6), gts.Range(7, 8))},
		gts.Join(gts.Range(6, 8), gts.Range(3, 4), gts.Range(0, 1)),
		gts.Join(gts.PartialRange(0, 1, gts.Partial5), gts.Range(2, 4), gts.PartialRange(5, 7, gts.Partial3)),
	}
	famC := append(append([]gts.Location(nil), manyParts...), fam...)
	for k, l := range famC {
		if o.Tier != "thorough" && k >= len(manyParts) && (k-len(manyParts))%3 != int(o.Seed%3) {
			continue
		}
		var hf gts.FeatureSlice
		// every third tracked feature is itself a source feature that covers only
		// part of the sequence (a record assembled from several sources)
		tkey := "f"
		if k%3 == 1 && !hasAmbiguous(l) {
			tkey = "source"
		} else {
			hf = hf.Insert(mkFeat("source", gts.Range(0, L)))
		}
		concatKey = tkey
		hf = hf.Insert(mkFeat(tkey, l))
		hs := gts.New(nil, hf, letters(L))
		for _, cs := range cuts {
			bounds := append(append([]int{0}, cs...), L)
			var pieces []string
			var pieceSeqs []gts.Sequence
			bad := false
			for j := 0; j+1 < len(bounds); j++ {
				r := o.Run("slice-piece", true, "seq_slice", seqSx(hs), itoa(bounds[j]), itoa(bounds[j+1]))
				if r == "panic" {
					if bounds[j] != bounds[j+1] || true {
						o.Violate("panic", join("seq_slice", seqSx(hs), itoa(bounds[j]), itoa(bounds[j+1])), "")
					}
					bad = true
					break
				}
				pieces = append(pieces, r[3:])
				pieceSeqs = append(pieceSeqs, parseSeq(r[3:]))
			}
			if bad {
				continue
			}
			arg := "(" + join(pieces...) + ")"
			r := o.Run("concat-pieces", true, "seq_concat", arg)
			checkConcat(o, hs, l, bounds, pieceSeqs, r, arg)
		}
	}
}

func checkUndo(o *Out, op string, hs gts.Sequence, l gts.Location, i, n int, back string) {
	line := join(op+";seq_delete", seqSx(hs), itoa(i), itoa(n))
	if back == "panic" {
		o.Violate("panic", line, "")
		return
	}
	out := parseSeq(back[3:])
	if !bytes.Equal(out.Bytes(), hs.Bytes()) {
		o.Violate("residues-not-restored", line, string(out.Bytes()))
	}
	g, cnt := findFeature(out.Features(), "f")
	if cnt != 1 {
		o.Violate("feature-lost", line, "")
		return
	}
	if !denEq(dedupAdj(den(g.Loc)), dedupAdj(den(l))) {
		o.Violate("feature-not-restored", line, fmt.Sprintf("got %s want %s", locSx(g.Loc), locSx(l)))
		return
	}
	if hasAmbiguous(l) {
		return // an ambiguous span carries no partial markers
	}
	a5, a3 := outerPartials(l)
	b5, b3 := outerPartials(g.Loc)
	if len(den(l)) > 0 && wellMarked(l) && (a5 != b5 || a3 != b3) {
		o.Violate("partials-not-restored", line, fmt.Sprintf("got %s want %s", locSx(g.Loc), locSx(l)))
	}
}

// the key of the feature tracked through slice*;concat (set by the generator)
var concatKey = "f"

func checkConcat(o *Out, hs gts.Sequence, l gts.Location, bounds []int, pieces []gts.Sequence, r, arg string) {
	line := join("seq_concat", arg)
	if r == "panic" {
		o.Violate("panic", line, "")
		return
	}
	out := parseSeq(r[3:])
	if !bytes.Equal(out.Bytes(), hs.Bytes()) {
		o.Violate("residues-not-restored", line, string(out.Bytes()))
	}
	// the pieces of the feature together denote exactly the residues of the
	// original, each on its original strand
	type key struct {
		p int
		c bool
	}
	want := map[key]int{}
	for _, d := range dedupAdj(den(l)) {
		want[key{d.p, d.c}]++
	}
	got := map[key]int{}
	for _, f := range out.Features() {
		if f.Key != concatKey {
			continue
		}
		for _, d := range dedupAdj(den(f.Loc)) {
			got[key{d.p, d.c}]++
		}
	}
	for k := range want {
		if got[k] == 0 {
			if k1InPieces(l, bounds, len(hs.Bytes())) {
				o.KnownFinding("K1")
				return
			}
			o.Violate("piece-residues-lost", line, fmt.Sprintf("%s: residue %d missing after cut %v", locSx(l), k.p, bounds))
			return
		}
	}
	for k := range got {
		if want[k] == 0 {
			o.Violate("piece-residues-extra", line, fmt.Sprintf("%s: residue %d (strand %v) appeared after cut %v", locSx(l), k.p, k.c, bounds))
			return
		}
	}
}

func k1InPieces(l gts.Location, bounds []int, L int) bool {
	for j := 0; j+1 < len(bounds); j++ {
		s, e := bounds[j], bounds[j+1]
		op1 := func(x gts.Location) gts.Location { return x.Expand(e, e-L) }
		op := func(x gts.Location) gts.Location { return x.Expand(e, e-L).Expand(0, -s) }
		if k1After(l, op1) || k1After(l, op) {
			return true
		}
	}
	return false
}
