package main

import (
	"bytes"
	"fmt"
	"io/ioutil"
	"os"
	"path/filepath"
	"reflect"
	"sort"
	"strings"

	"github.com/go-gts/gts"
	"github.com/go-gts/gts/seqio"
)

func init() {
	props["C15"] = runC15
	for _, op := range []string{"plan_delete", "plan_insert", "plan_rotate", "plan_split", "plan_extract"} {
		op := op
		ops[op] = func(a []string) string { return cliPlan(op, a) }
	}
}

// cliPlan runs the real binary: a[0] = hex of the argument vector joined by
// '\x00', a[1] = hex of stdin; the remaining arguments are for the model.
func cliPlan(op string, a []string) string {
	args := strings.Split(string(unhx(a[0])), "\x00")
	sb := newSandbox()
	defer sb.close()
	// secondary file arguments are passed inline as "file:<hex>"
	for i, x := range args {
		if strings.HasPrefix(x, "file:") {
			p := filepath.Join(sb.dir, fmt.Sprintf("arg%d.gb", i))
			ioutil.WriteFile(p, unhx("x"+x[5:]), 0644)
			args[i] = p
		}
	}
	r := sb.run(args, unhx(a[1]), false, true)
	if r.code != 0 {
		return "err"
	}
	seqs, ok := parseRecords(r.stdout)
	if !ok {
		return "unparsable"
	}
	parts := make([]string, len(seqs))
	for i, s := range seqs {
		parts[i] = seqSx(s)
	}
	return "ok (" + strings.Join(parts, " ") + ")"
}

func parseRecords(b []byte) ([]gts.Sequence, bool) {
	sc := seqio.NewAutoScanner(bytes.NewReader(b))
	var out []gts.Sequence
	for sc.Scan() {
		out = append(out, sc.Value())
	}
	return out, sc.Err() == nil
}

func argHex(args ...string) string { return hx([]byte(strings.Join(args, "\x00"))) }

func mkRecord(top gts.Topology, n int) gts.Sequence {
	fields := seqio.GenBankFields{
		LocusName: "TEST", Molecule: gts.DNA, Topology: top, Division: "SYN",
		Date: seqio.Date{Year: 2020, Month: 1, Day: 2}, Definition: "test record", Accession: "T00001", Version: "T00001.1",
		Source: seqio.Organism{Species: "synthetic", Name: "synthetic", Taxon: []string{"other"}},
	}
	var ff gts.FeatureSlice
	ff = ff.Insert(gts.Feature{Key: "source", Loc: gts.Range(0, n), Props: gts.Props{{"organism", "synthetic"}}})
	ff = ff.Insert(gts.Feature{Key: "gene", Loc: gts.Range(3, 20), Props: gts.Props{{"gene", "a"}}})
	ff = ff.Insert(gts.Feature{Key: "CDS", Loc: gts.Join(gts.Range(5, 10), gts.Range(15, 30)), Props: gts.Props{{"gene", "a"}}})
	ff = ff.Insert(gts.Feature{Key: "CDS", Loc: gts.Complemented{Location: gts.Range(25, 40)}, Props: gts.Props{{"gene", "b"}}})
	ff = ff.Insert(gts.Feature{Key: "misc_feature", Loc: gts.Range(35, 50), Props: gts.Props{{"note", "m"}}})
	ff = ff.Insert(gts.Feature{Key: "misc_feature", Loc: gts.Range(8, 12), Props: gts.Props{{"note", "nested"}}})
	// same outer bounds as the gene, different structure
	ff = ff.Insert(gts.Feature{Key: "mRNA", Loc: gts.Join(gts.Range(3, 9), gts.Range(14, 20)), Props: gts.Props{{"gene", "a"}}})
	// a forward feature that starts inside a reverse-strand one listed before it:
	// the 5' ends of the located regions (40, then 30) are not in table order
	ff = ff.Insert(gts.Feature{Key: "CDS", Loc: gts.Range(30, 38), Props: gts.Props{{"gene", "c"}}})
	// two different spliced features with the same ends and the same total length
	ff = ff.Insert(gts.Feature{Key: "tRNA", Loc: gts.Join(gts.Range(1, 10), gts.Range(20, 29)), Props: gts.Props{{"note", "t1"}}})
	ff = ff.Insert(gts.Feature{Key: "tRNA", Loc: gts.Join(gts.Range(1, 5), gts.Range(15, 29)), Props: gts.Props{{"note", "t2"}}})
	// two regions with the same 5' end
	ff = ff.Insert(gts.Feature{Key: "regulatory", Loc: gts.Range(43, 52), Props: gts.Props{{"note", "r1"}}})
	ff = ff.Insert(gts.Feature{Key: "regulatory", Loc: gts.Range(43, 47), Props: gts.Props{{"note", "r2"}}})
	p := make([]byte, n)
	for i := range p {
		p[i] = "acgtacggtcatgcatgacc"[(i*7+i/5)%20]
	}
	return gts.New(fields, ff, p)
}

func gbText(s gts.Sequence) []byte {
	var b bytes.Buffer
	seqio.NewWriter(&b, seqio.GenBankFile).WriteSeq(s)
	return b.Bytes()
}

func regionsOf(locstr string, s gts.Sequence) (rr gts.Regions, ok bool) {
	defer func() {
		if r := recover(); r != nil {
			ok = false
		}
	}()
	loc, err := gts.AsLocator(locstr)
	if err != nil {
		return nil, false
	}
	return loc(s), true
}

func regListSx(rr gts.Regions) string {
	parts := make([]string, len(rr))
	for i, r := range rr {
		parts[i] = regionSx(r)
	}
	return "(" + strings.Join(parts, " ") + ")"
}

func stripInfo(s gts.Sequence) gts.Sequence { return gts.New(nil, s.Features(), s.Bytes()) }

func runC15(o *Out) {
	if _, err := os.Stat(gtsBin); err != nil {
		panic("gts binary not built: " + gtsBin)
	}
	scenarioStreamIndependence(o)
	n := 60
	locators := []string{"10", "10..20", "complement(12..18)", "CDS", "gene", "misc_feature", "exon", "CDS@^", "CDS@^-2..$+2", "@^+3",
		"gene@$", "^+5..^+10", "misc_feature@^..^+3", "CDS/gene=b", "/gene=a", "$-10..$", "1", "60", "regulatory", "mRNA", "regulatory@^", "tRNA"}
	guest := gts.New("guest", gts.FeatureSlice{{Key: "gf", Loc: gts.Range(0, 4), Props: gts.Props{{"note", "g"}}}}, []byte("NNNN"))
	guestFa := []byte(">guest\nNNNN\n")
	for _, top := range []gts.Topology{gts.Linear, gts.Circular} {
		rec := mkRecord(top, n)
		text := gbText(rec)
		parsed, ok := parseRecords(text)
		if !ok || len(parsed) != 1 {
			o.Violate("generated-record-unreadable", "mkRecord", "")
			return
		}
		if top == gts.Linear {
			scenarioMultiGuest(o, text, stripInfo(parsed[0]), []string{"7", "gene", "CDS", "regulatory"})
		}
		in := parsed[0]
		plain := stripInfo(in)
		for _, ls := range locators {
			rr, ok := regionsOf(ls, in)
			if !ok {
				continue
			}
			// delete / erase
			for _, erase := range []bool{false, true} {
				args := []string{"delete", ls}
				if erase {
					args = append(args, "-e")
				}
				res := o.Run("delete", len(rr) > 1, "plan_delete", argHex(args...), hx(text), seqSx(plain), regListSx(rr), b2s(erase))
				checkDeletePlan(o, ls, erase, plain, rr, res)
			}
			// insert / infix
			for _, embed := range []bool{false, true} {
				args := []string{"insert", ls, "@NNNN"}
				if embed {
					args = append(args, "-e")
				}
				lit := gts.New(nil, nil, []byte("NNNN"))
				res := o.Run("insert", len(rr) > 1, "plan_insert", argHex(args...), hx(text), "x", seqSx(plain), regListSx(rr), seqSx(lit), b2s(embed))
				checkInsertPlan(o, "insert "+ls, plain, rr, []byte("NNNN"), res)
				// infix: the guest comes from stdin, the host is a file argument
				iargs := []string{"infix", ls, "file:" + hx(text)[1:]}
				if embed {
					iargs = append(iargs, "-e")
				}
				gparsed, _ := parseRecords(guestFa)
				gplain := gts.New(nil, gparsed[0].Features(), gparsed[0].Bytes())
				res2 := o.Run("infix", len(rr) > 1, "plan_insert", argHex(iargs...), hx(guestFa), "x", seqSx(plain), regListSx(rr), seqSx(gplain), b2s(embed))
				checkInsertPlan(o, "infix "+ls, plain, rr, []byte("NNNN"), res2)
			}
			_ = guest
			// rotate
			resR := o.Run("rotate", len(rr) > 0, "plan_rotate", argHex("rotate", ls), hx(text), seqSx(plain), regListSx(rr))
			checkRotatePlan(o, ls, plain, rr, resR)
			// split
			resS := o.Run("split", len(rr) > 1, "plan_split", argHex("split", ls), hx(text), seqSx(plain), regListSx(rr), b2s(top == gts.Circular))
			checkSplitPlan(o, ls, plain, rr, top == gts.Circular, resS)
			// extract, also with FASTA output
			for _, inv := range []bool{false, true} {
				args := []string{"extract", ls}
				if inv {
					args = append(args, "-v")
				}
				resE := o.Run("extract", len(rr) > 1, "plan_extract", argHex(args...), hx(text), seqSx(plain), regListSx(rr), b2s(inv))
				checkExtractPlan(o, ls, inv, plain, rr, resE)
				fargs := append(append([]string(nil), args...), "-F", "fasta")
				sb := newSandbox()
				r := sb.run(fargs, text, false, true)
				sb.close()
				if fa, ok := parseRecords(r.stdout); ok && strings.HasPrefix(resE, "ok ") {
					want := parseSx(resE[3:])[0].list
					if len(fa) != len(want) {
						o.Violate("extract-fasta-count", "extract "+ls, "")
					} else {
						for i := range fa {
							if string(fa[i].Bytes()) != string(sxSeq(want[i]).Bytes()) {
								o.Violate("extract-fasta-residues", "extract "+ls, "")
							}
						}
					}
				}
			}
		}
		// two locators for extract (duplicates across locators are removed)
		rr1, _ := regionsOf("CDS", in)
		rr2, _ := regionsOf("/gene=b", in)
		both := append(append(gts.Regions{}, rr1...), rr2...)
		resE := o.Run("extract-two-locators", true, "plan_extract", argHex("extract", "CDS", "/gene=b"), hx(text), seqSx(plain), regListSx(both), "0")
		checkExtractPlan(o, "CDS /gene=b", false, plain, both, resE)
	}
}

func parseSeqList(res string) ([]gts.Sequence, bool) {
	if !strings.HasPrefix(res, "ok ") {
		return nil, false
	}
	var out []gts.Sequence
	for _, x := range parseSx(res[3:])[0].list {
		out = append(out, sxSeq(x))
	}
	return out, true
}

func unionOf(rr gts.Regions) map[int]bool {
	var segs []gts.Segment
	for _, r := range rr {
		segs = append(segs, flatSegs(r)...)
	}
	return covered(segs)
}

func checkDeletePlan(o *Out, ls string, erase bool, in gts.Sequence, rr gts.Regions, res string) {
	line := fmt.Sprintf("gts delete %s erase=%v", ls, erase)
	outs, ok := parseSeqList(res)
	if !ok || len(outs) != 1 {
		o.Violate("command-failed", line, res)
		return
	}
	u := unionOf(rr)
	var want []byte
	pos := map[int]int{}
	for i, c := range in.Bytes() {
		if !u[i] {
			pos[i] = len(want)
			want = append(want, c)
		}
	}
	if string(outs[0].Bytes()) != string(want) {
		o.Violate("delete-not-union", line, fmt.Sprintf("got %q want %q", outs[0].Bytes(), want))
		return
	}
	// surviving features denote their old residues minus the union, re-based
	if !erase {
		for _, f := range in.Features() {
			wantDen := mapDen(den(f.Loc), func(d dpos) (dpos, bool) {
				np, ok := pos[d.p]
				d.p = np
				return d, ok
			})
			found := false
			for _, g := range outs[0].Features() {
				if g.Key == f.Key && reflect.DeepEqual(g.Props, f.Props) && denEq(dedupAdj(den(g.Loc)), dedupAdj(wantDen)) {
					found = true
				}
			}
			if !found {
				o.Violate("delete-feature-residues", line, fmt.Sprintf("%s %s", f.Key, locSx(f.Loc)))
			}
		}
	}
}

func checkInsertPlan(o *Out, line string, in gts.Sequence, rr gts.Regions, guest []byte, res string) {
	outs, ok := parseSeqList(res)
	if !ok || len(outs) != 1 {
		o.Violate("command-failed", line, res)
		return
	}
	heads := make([]int, len(rr))
	for i, r := range rr {
		heads[i] = r.Head()
	}
	sort.Ints(heads)
	var want []byte
	k := 0
	for i := 0; i <= len(in.Bytes()); i++ {
		for k < len(heads) && heads[k] == i {
			want = append(want, guest...)
			k++
		}
		if i < len(in.Bytes()) {
			want = append(want, in.Bytes()[i])
		}
	}
	if k != len(heads) {
		return // a head outside the sequence: the command's error is compared by the correspondence
	}
	if string(outs[0].Bytes()) != string(want) {
		o.Violate("insert-not-at-every-head", line, fmt.Sprintf("got %q want %q", outs[0].Bytes(), want))
	}
}

func checkRotatePlan(o *Out, ls string, in gts.Sequence, rr gts.Regions, res string) {
	line := "gts rotate " + ls
	outs, ok := parseSeqList(res)
	if !ok || len(outs) != 1 {
		o.Violate("command-failed", line, res)
		return
	}
	b := in.Bytes()
	h := 0
	if len(rr) > 0 {
		h = ((rr[0].Head() % len(b)) + len(b)) % len(b)
	}
	want := append(append([]byte(nil), b[h:]...), b[:h]...)
	if string(outs[0].Bytes()) != string(want) {
		o.Violate("rotate-not-to-first-site", line, fmt.Sprintf("got %q want %q", outs[0].Bytes(), want))
	}
}

func checkSplitPlan(o *Out, ls string, in gts.Sequence, rr gts.Regions, circular bool, res string) {
	line := fmt.Sprintf("gts split %s circular=%v", ls, circular)
	outs, ok := parseSeqList(res)
	if !ok {
		o.Violate("command-failed", line, res)
		return
	}
	var cat []byte
	for _, s := range outs {
		cat = append(cat, s.Bytes()...)
	}
	b := in.Bytes()
	if !circular || len(rr) == 0 {
		if string(cat) != string(b) {
			o.Violate("split-pieces-do-not-concatenate", line, fmt.Sprintf("got %q", cat))
		}
		return
	}
	// circular: the input re-origined at a cut
	okRot := false
	for _, r := range rr {
		for _, c := range []int{r.Head(), r.Tail()} {
			c = ((c % len(b)) + len(b)) % len(b)
			if string(cat) == string(append(append([]byte(nil), b[c:]...), b[:c]...)) {
				okRot = true
			}
		}
	}
	if !okRot {
		o.Violate("split-circular-not-a-rotation", line, fmt.Sprintf("got %q", cat))
	}
}

func checkExtractPlan(o *Out, ls string, invert bool, in gts.Sequence, rr gts.Regions, res string) {
	line := fmt.Sprintf("gts extract %s invert=%v", ls, invert)
	outs, ok := parseSeqList(res)
	if !ok {
		o.Violate("command-failed", line, res)
		return
	}
	b := in.Bytes()
	var want [][]byte
	if invert {
		// the unlocated stretches: located segments (zero-length sites
		// included: they act as cut points) sorted and merged, then the gaps
		var segs []gts.Segment
		for _, r := range rr {
			for _, s := range flatSegs(r) {
				if s[1] < s[0] {
					s = gts.Segment{s[1], s[0]}
				}
				segs = append(segs, s)
			}
		}
		sort.Slice(segs, func(i, j int) bool {
			if segs[i][0] != segs[j][0] {
				return segs[i][0] < segs[j][0]
			}
			return segs[i][1] < segs[j][1]
		})
		start := 0
		for _, s := range segs {
			if s[0] > start {
				want = append(want, b[start:s[0]])
			}
			if s[1] > start {
				start = s[1]
			}
		}
		if start < len(b) {
			want = append(want, b[start:])
		}
	} else {
		seen := map[string]bool{}
		var uniq []gts.Region
		for _, r := range rr {
			k := regionSx(r)
			if !seen[k] {
				seen[k] = true
				uniq = append(uniq, r)
			}
		}
		for _, r := range uniq {
			if len(uniq) != 1 && r.Len() == len(b) {
				continue
			}
			var s []byte
			for _, d := range regionDen(r) {
				if d.p < 0 || d.p >= len(b) {
					return // outside the record: compared by the correspondence only
				}
				c := b[d.p]
				if d.c {
					c = gts.Complement(gts.New(nil, nil, []byte{c})).Bytes()[0]
				}
				s = append(s, c)
			}
			want = append(want, s)
		}
	}
	if invert && len(want) == 1 && len(want[0]) == len(b) && len(rr) > 0 {
		// nothing located at all inside the record
	}
	if len(outs) != len(want) {
		// the whole-record stretch is skipped unless it is the only one
		if invert && len(want) > 1 {
			var w2 [][]byte
			for _, w := range want {
				if len(w) != len(b) {
					w2 = append(w2, w)
				}
			}
			want = w2
		}
	}
	if len(outs) != len(want) {
		o.Violate("extract-count", line, fmt.Sprintf("%d subsequences, expected %d", len(outs), len(want)))
		return
	}
	for i := range want {
		if string(outs[i].Bytes()) != string(want[i]) {
			o.Violate("extract-subsequence", line, fmt.Sprintf("#%d got %q want %q", i, outs[i].Bytes(), want[i]))
			return
		}
	}
}

// a guest FILE with several records (also a CONTIG-only GenBank record, which
// has a length on its LOCUS line but no residues): gts insert writes one record
// per guest, each the INPUT with only that guest at every located 5' position
func scenarioMultiGuest(o *Out, text []byte, plain gts.Sequence, locators []string) {
	sb := newSandbox()
	defer sb.close()
	guestFile := filepath.Join(sb.dir, "guests.fa")
	guests := [][]byte{[]byte("NNNN"), []byte("RRRRRR"), []byte("Y")}
	ioutil.WriteFile(guestFile, []byte(">g1\nNNNN\n>g2 second\nRRRRRR\n>g3\nY\n"), 0644)
	contigFile := filepath.Join(sb.dir, "contig.gb")
	contig := []byte("LOCUS       CONTIGONLY               500 bp    DNA     linear   SYN 01-JAN-2020\nDEFINITION  contig only.\nACCESSION   C00001\nVERSION     C00001.1\nKEYWORDS    .\nSOURCE      synthetic\n  ORGANISM  synthetic\n            other.\nFEATURES             Location/Qualifiers\n     source          1..500\n                     /organism=\"contig-guest\"\nCONTIG      join(X00001.1:1..500)\n//\n")
	ioutil.WriteFile(contigFile, contig, 0644)
	for _, ls := range locators {
		rr, ok := regionsOf(ls, plain)
		if !ok {
			continue
		}
		for _, embed := range []bool{false, true} {
			args := []string{"insert", ls, guestFile}
			cargs := []string{"insert", ls, contigFile}
			if embed {
				args = append(args, "-e")
				cargs = append(cargs, "-e")
			}
			r := sb.run(args, text, false, true)
			line := "gts " + strings.Join(args[:2], " ") + " <three-record guest file>"
			outs, okp := parseRecords(r.stdout)
			if r.code != 0 || !okp || len(outs) != len(guests) {
				o.Violate("multi-guest-command-failed", line, fmt.Sprintf("exit %d, %d records", r.code, len(outs)))
			} else {
				for gi, out := range outs {
					checkInsertPlan(o, fmt.Sprintf("%s, guest %d", line, gi+1), plain, rr, guests[gi], "ok ("+seqSx(out)+")")
				}
			}
			// a guest without residues: nothing is inserted, whatever its LOCUS line says
			rc := sb.run(cargs, text, false, true)
			if rc.code == 0 {
				couts, okc := parseRecords(rc.stdout)
				if !okc || len(couts) != 1 {
					o.Violate("contig-guest-output", "gts "+strings.Join(cargs[:2], " ")+" <CONTIG-only guest>", fmt.Sprintf("%d records", len(couts)))
				} else {
					checkInsertPlan(o, "gts "+strings.Join(cargs[:2], " ")+" <CONTIG-only guest>", plain, rr, nil, "ok ("+seqSx(couts[0])+")")
					for _, f := range couts[0].Features() {
						if v := f.Props.Get("organism"); len(v) == 1 && v[0] == "contig-guest" {
							continue // the guest's own feature: it had no residues to denote in the guest either
						}
						if !coordsIn(f.Loc, 0, len(plain.Bytes())) {
							o.Violate("contig-guest-feature-out-of-range", "gts "+strings.Join(cargs[:2], " ")+" <CONTIG-only guest>", f.Key+" "+locSx(f.Loc))
						}
					}
				}
			}
		}
	}
}

// the records of a stream are handled independently: what a command writes for
// a stream is what it writes for each record alone, one after the other --
// circular and linear records mixed, in every order
func scenarioStreamIndependence(o *Out) {
	sb := newSandbox()
	defer sb.close()
	circ := gbText(mkRecord(gts.Circular, 60))
	lin := gbText(mkRecord(gts.Linear, 60))
	lin2 := gbText(mkRecord(gts.Linear, 56))
	streams := [][][]byte{{circ, lin}, {lin, circ, lin2}, {circ, circ, lin}, {lin2, lin, circ}, {circ, lin2}}
	locs := []string{"CDS", "misc_feature", "gene", "regulatory", "10", "tRNA", "mRNA"}
	for _, ls := range locs {
		for _, cmd := range [][]string{{"split", ls}, {"delete", ls}, {"extract", ls}, {"rotate", ls}, {"insert", ls, "@NN"}} {
			alone := map[string]runResult{}
			for _, st := range streams {
				var whole, want []byte
				code := 0
				for _, rec := range st {
					whole = append(whole, rec...)
					r, seen := alone[string(rec)]
					if !seen {
						r = sb.run(cmd, rec, false, true)
						alone[string(rec)] = r
					}
					want = append(want, r.stdout...)
					if r.code != 0 {
						code = r.code
					}
				}
				if code != 0 {
					continue
				}
				got := sb.run(cmd, whole, false, true)
				o.Dist["cli-stream-independence"]++
				if got.code != 0 || !bytes.Equal(got.stdout, want) {
					o.Violate("stream-records-not-independent", fmt.Sprintf("gts %s on a stream of %d records", strings.Join(cmd, " "), len(st)),
						fmt.Sprintf("exit %d, %d bytes, want %d bytes", got.code, len(got.stdout), len(want)))
				}
			}
		}
	}
}
