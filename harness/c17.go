package main

import (
	"bytes"
	"fmt"
	"io/ioutil"
	"os"
	"os/exec"
	"path/filepath"
	"strings"

	"github.com/go-gts/gts"
	"github.com/go-gts/gts/seqio"
)

func init() {
	props["C17"] = runC17
	ops["fasta_format"] = func(a []string) string {
		var b bytes.Buffer
		seqio.Fasta{Desc: string(unhx(a[0])), Data: unhx(a[1])}.WriteTo(&b)
		return "ok " + hx(b.Bytes())
	}
	// FastaWriter.WriteSeq on a GenBank record: GenBankFields.String gives the description
	ops["gb_to_fasta"] = func(a []string) string {
		fields := seqio.GenBankFields{LocusName: "X", Molecule: gts.DNA, Topology: gts.Linear,
			Version: string(unhx(a[0])), Definition: string(unhx(a[4]))}
		if a[1] == "1" {
			fields.Region = gts.Segment{atoi(a[2]), atoi(a[3])}
		}
		var b bytes.Buffer
		if _, err := seqio.NewWriter(&b, seqio.FastaFile).WriteSeq(gts.New(fields, nil, unhx(a[5]))); err != nil {
			return "error"
		}
		return "ok " + hx(b.Bytes())
	}
	ops["fasta_scan"] = func(a []string) string {
		recs, clean := scanFasta(unhx(a[0]))
		parts := make([]string, len(recs))
		for i, r := range recs {
			parts[i] = fmt.Sprintf("(%s %s)", hx([]byte(r.Desc)), hx(r.Data))
		}
		return join("ok", "("+strings.Join(parts, " ")+")", b2s(clean))
	}
}

func scanFasta(input []byte) ([]seqio.Fasta, bool) {
	sc := seqio.NewScanner(seqio.FastaParser, bytes.NewReader(input))
	var out []seqio.Fasta
	for sc.Scan() {
		out = append(out, sc.Value().(seqio.Fasta))
	}
	return out, sc.Err() == nil
}

func crlfBytes(b []byte) []byte { return bytes.ReplaceAll(b, []byte("\n"), []byte("\r\n")) }

func runC17(o *Out) {
	runC17FileNames(o)
	maxLen := 160
	if o.Tier == "thorough" {
		maxLen = 300
	}
	alpha := "ACGTNacgtn*-.0123456789!\"#$%&'()+,/:;<=?@[\\]^_`{|}~ \tXYZ"
	descs := []string{"", "seq1", "NC_001422.1 Coliphage phi-X174, complete genome", "a > b", " leading and trailing ", "tab\tinside", "x",
		"100% identity, 5%d of %s and a %v; %!", "back\\slash and \"quotes\" {braces} $HOME",
		// bytes, not text: Latin-1, a lone continuation byte, a truncated and a complete UTF-8 sequence
		"Se\xf1or Latin-1", "lone \x80 byte", "cut \xe2\x82", "caf\xc3\xa9 \xe2\x82\xac ok", "\xff\xfe"}
	// every residue count, several descriptions: write -> read
	for n := 0; n <= maxLen; n++ {
		data := residues(alpha, n, n)
		for di, d := range descs {
			if o.Tier != "thorough" && (n+di)%3 != 0 && n%70 > 1 && n%70 < 69 {
				continue
			}
			res := o.Run("format", n > 0, "fasta_format", hx([]byte(d)), hx(data))
			text := unhx(res[3:])
			back := o.Run("scan-one", true, "fasta_scan", hx(text))
			line := join("fasta_format", hx([]byte(d)), hx(data))
			want := join("ok", fmt.Sprintf("((%s %s))", hx([]byte(d)), hx(data)), "1")
			if back != want {
				o.Violate("roundtrip", line, fmt.Sprintf("read back %s", back[:minInt(len(back), 160)]))
			}
			// layout: 70-column wrapping
			lines := strings.Split(string(text), "\n")
			for li, l := range lines[1:] {
				if len(l) > 70 || (li < len(lines)-3 && len(l) != 70) {
					o.Violate("wrapping", line, fmt.Sprintf("line %d has %d columns", li+2, len(l)))
				}
			}
			// CRLF input reads back the same
			backCR := o.Run("scan-one-crlf", true, "fasta_scan", hx(crlfBytes(text)))
			if backCR != want {
				o.Violate("crlf", join("fasta_scan", hx(crlfBytes(text))), fmt.Sprintf("read back %s", backCR[:minInt(len(backCR), 160)]))
			}
		}
	}
	// streams of 1..5 records
	for k := 0; k < 200; k++ {
		nrec := 1 + o.Rng.Intn(5)
		var b bytes.Buffer
		var parts []string
		for r := 0; r < nrec; r++ {
			n := []int{0, 1, 69, 70, 71, 139, 140, 141, o.Rng.Intn(200)}[o.Rng.Intn(9)]
			d := descs[o.Rng.Intn(len(descs))]
			data := residues(alpha, n, k+r)
			seqio.Fasta{Desc: d, Data: data}.WriteTo(&b)
			parts = append(parts, fmt.Sprintf("(%s %s)", hx([]byte(d)), hx(data)))
		}
		want := join("ok", "("+strings.Join(parts, " ")+")", "1")
		for ci, text := range [][]byte{b.Bytes(), crlfBytes(b.Bytes())} {
			got := o.Run("scan-stream", true, "fasta_scan", hx(text))
			if got != want {
				o.Violate("stream", join("fasta_scan", hx(text)), fmt.Sprintf("crlf=%d: %d records expected", ci, nrec))
			}
		}
	}
	// streams in which a later record starts exactly at, just before or just after
	// a multiple of the reader's block size (4096 bytes)
	for _, target := range []int{4096, 8192, 12288} {
		for _, delta := range []int{-1, 0, 1} {
			n := -1
			for cand := 0; cand < target; cand++ {
				if 4+cand+(cand+69)/70 == target+delta { // ">r1\n" + residues + line ends
					n = cand
					break
				}
			}
			if n < 0 {
				continue
			}
			var b bytes.Buffer
			first := residues(alpha, n, target+delta)
			seqio.Fasta{Desc: "r1", Data: first}.WriteTo(&b)
			if b.Len() != target+delta {
				continue
			}
			second := residues(alpha, 100, delta+1)
			seqio.Fasta{Desc: "r2 second", Data: second}.WriteTo(&b)
			seqio.Fasta{Desc: "r3", Data: second[:7]}.WriteTo(&b)
			want := join("ok", fmt.Sprintf("((%s %s) (%s %s) (%s %s))", hx([]byte("r1")), hx(first), hx([]byte("r2 second")), hx(second), hx([]byte("r3")), hx(second[:7])), "1")
			got := o.Run("scan-block-boundary", true, "fasta_scan", hx(b.Bytes()))
			if got != want {
				o.Violate("stream-block-boundary", fmt.Sprintf("fasta_scan <%d-byte stream, second record at offset %d>", b.Len(), target+delta),
					fmt.Sprintf("3 records expected, got %s", got[:minInt(len(got), 120)]))
			}
		}
	}
	runGbToFastaBuilt(o)
	// malformed / arbitrary streams: correspondence only
	for k := 0; k < 400; k++ {
		n := o.Rng.Intn(60)
		p := make([]byte, n)
		for i := range p {
			p[i] = ">\n\racgt>X \n"[o.Rng.Intn(11)]
		}
		o.Run("scan-arbitrary", true, "fasta_scan", hx(p))
	}
	// GenBank -> FASTA keeps residues; description = version[:a-b] definition
	for _, name := range []string{"NC_001422.gb", "NC_001422_part.gb", "pBAT5.txt"} {
		raw, err := ioutil.ReadFile("/repo/seqio/testdata/" + name)
		if err != nil {
			continue
		}
		sc := seqio.NewAutoScanner(bytes.NewReader(raw))
		for sc.Scan() {
			seq := sc.Value()
			checkGbToFasta(o, name, seq)
			n := gts.Len(seq)
			if n > 100 {
				checkGbToFasta(o, name+":slice", gts.Slice(seq, 10, 95))
			}
		}
	}
}

// records built through the API whose DEFINITION runs over several lines, with
// and without a VERSION, whole and sliced
func runGbToFastaBuilt(o *Out) {
	// GenBankFields.String for every shape of region, version and definition
	vers := []string{"", "V0001.1", "NC_001422.1", "a b", "x:1-2"}
	defs := []string{"", "one line", "first line\nsecond line", "a\n\nb\n", "100% of %d", " lead"}
	nums := []int{0, 1, 9, 10, 99, 100, 999, 1000, 12345, 99999, 100000, 1234567}
	for k := 0; k < 150; k++ {
		has := "1"
		if k%5 == 0 {
			has = "0"
		}
		h, t := nums[o.Rng.Intn(len(nums))], nums[o.Rng.Intn(len(nums))]
		n := []int{0, 1, 69, 70, 71, 140, o.Rng.Intn(200)}[o.Rng.Intn(7)]
		o.Run("gb-to-fasta", true, "gb_to_fasta", hx([]byte(vers[k%len(vers)])), has, itoa(h), itoa(t),
			hx([]byte(defs[o.Rng.Intn(len(defs))])), hx(residues("acgtnRYKM-*", n, k)))
	}
	for i, def := range []string{"one line", "first line\nsecond line", "three\nlines of\ndefinition", ""} {
		for _, ver := range []string{"V0001.1", ""} {
			fields := seqio.GenBankFields{LocusName: "BUILT", Molecule: gts.DNA, Topology: gts.Linear, Division: "SYN",
				Date: seqio.Date{Year: 2020, Month: 1, Day: 2}, Definition: def, Accession: "V0001", Version: ver}
			seq := gts.New(fields, nil, residues("acgtacgtnnry", 150+i, i))
			checkGbToFasta(o, fmt.Sprintf("built:%d:%q", i, ver), seq)
			checkGbToFasta(o, fmt.Sprintf("built-slice:%d:%q", i, ver), gts.Slice(seq, 5, 120))
		}
	}
}

func checkGbToFasta(o *Out, name string, seq gts.Sequence) {
	if info, ok := seq.Info().(seqio.GenBankFields); ok {
		// the model's gb_to_fasta against the real writer, on this record's fields
		has, h, t := "0", 0, 0
		if seg, ok := info.Region.(gts.Segment); ok {
			has, h, t = "1", seg[0], seg[1]
		}
		data := seq.Bytes()
		if len(data) > 400 {
			data = data[:400]
		}
		o.Run("gb-to-fasta", true, "gb_to_fasta", hx([]byte(info.Version)), has, itoa(h), itoa(t), hx([]byte(info.Definition)), hx(data))
	}
	var b bytes.Buffer
	if _, err := seqio.NewWriter(&b, seqio.FastaFile).WriteSeq(seq); err != nil {
		o.Violate("genbank-to-fasta-write", name, err.Error())
		return
	}
	got := o.Run("scan-genbank-as-fasta", true, "fasta_scan", hx(b.Bytes()))
	recs, clean := scanFasta(b.Bytes())
	if !clean || len(recs) != 1 {
		o.Violate("genbank-to-fasta-read", name, got[:minInt(len(got), 100)])
		return
	}
	if !bytes.Equal(recs[0].Data, seq.Bytes()) {
		o.Violate("genbank-to-fasta-residues", name, "")
	}
	info := seq.Info().(seqio.GenBankFields)
	want := info.Version
	if seg, ok := info.Region.(gts.Segment); ok {
		want += fmt.Sprintf(":%d-%d", seg[0]+1, seg[1])
	}
	want += " " + strings.ReplaceAll(info.Definition, "\n", " ")
	if recs[0].Desc != want {
		o.Violate("genbank-to-fasta-description", name, fmt.Sprintf("%q want %q", recs[0].Desc, want))
	}
}

// the format of an output file is decided by the extension of its name, i.e.
// by what follows the LAST dot of the base name: accession.version.fasta is FASTA
func runC17FileNames(o *Out) {
	for _, c := range []struct {
		name string
		want seqio.FileType
	}{{"out.fasta", seqio.FastaFile}, {"out.genbank", seqio.GenBankFile}, {"NC_001422.1.fasta", seqio.FastaFile}, {"a.b.c.fasta", seqio.FastaFile},
		{"dir.v2/out.fasta", seqio.FastaFile}, {"dir.fasta/out.gb", seqio.GenBankFile}, {"x.fasta.gb", seqio.GenBankFile}, {"NC_001422.1.gb", seqio.GenBankFile},
		{"noext", seqio.DefaultFile}, {"dir.fasta/noext", seqio.DefaultFile}, {"-", seqio.DefaultFile}} {
		if got := seqio.Detect(c.name); got != c.want {
			o.Violate("output-format-by-extension", "Detect "+c.name, fmt.Sprintf("%v want %v", got, c.want))
		}
	}
	if _, err := os.Stat(gtsBin); err != nil {
		return
	}
	sb := newSandbox()
	defer sb.close()
	gb := gbText(mkRecord(gts.Linear, 60))
	for _, name := range []string{"NC_001422.1.fasta", "plain.fasta", "v1.2.3.fasta"} {
		path := filepath.Join(sb.dir, "out", name)
		cmd := exec.Command(gtsBin, "reverse", "--no-cache", "-o", path)
		cmd.Env = []string{"XDG_CACHE_HOME=" + filepath.Join(sb.dir, "cache"), "HOME=" + filepath.Join(sb.dir, "home"), "PATH=/usr/bin:/bin"}
		cmd.Stdin = bytes.NewReader(gb)
		err := cmd.Run()
		out, _ := ioutil.ReadFile(path)
		o.Dist["cli-output-name"]++
		if err != nil || len(out) == 0 || out[0] != '>' {
			o.Violate("output-format-by-extension", "gts reverse -o "+name, fmt.Sprintf("err %v, output starts %q", err, string(out[:minInt(20, len(out))])))
		}
	}
}
