package main

// C01: GenBank records written by gts read back identically.
// Generated records (writable domain), corpus records and records reached by
// edit pipelines are written, read back and written again.  The writer and
// the reader both run against the Coq model (gb_write / gb_scan case lines);
// the oracle below is the property's own predicate on the implementation.

import (
	"bytes"
	"fmt"
	"io/ioutil"
	"math/rand"
	"strings"
	"time"

	"github.com/go-gts/gts"
	"github.com/go-gts/gts/seqio"
	"github.com/go-wrap/wrap"
)

func init() { props["C01"] = runC01 }

const (
	alWord  = "ABCDEFGHIJKLMNOPQRSTUVWXYZabcdefghijklmnopqrstuvwxyz0123456789_"
	alText  = "abcdefghij klmnopqrs tuvwxyz ABCDEFG 0123456789 ,.;:()[]-_+*/'<>=%&#@!?|~^${}"
	alUpper = "ABCDEFGHIJKLMNOPQRSTUVWXYZ"
)

func rstr(r *rand.Rand, alpha string, min, max int) string {
	n := min
	if max > min {
		n += r.Intn(max - min + 1)
	}
	p := make([]byte, n)
	for i := range p {
		p[i] = alpha[r.Intn(len(alpha))]
	}
	return string(p)
}

// text without leading/trailing blanks on any line (trailing blanks survive a
// round trip too, but keep the common case clean); lines joined by "\n"
func rtext(r *rand.Rand, lines, maxw int) string {
	n := 1 + r.Intn(lines)
	ls := make([]string, n)
	for i := range ls {
		ls[i] = strings.TrimSpace(rstr(r, alText, 1, maxw))
		if ls[i] == "" {
			ls[i] = "x"
		}
	}
	return strings.Join(ls, "\n")
}

var knownFieldNames = map[string]bool{"LOCUS": true, "DEFINITION": true, "ACCESSION": true, "VERSION": true, "DBLINK": true,
	"KEYWORDS": true, "SOURCE": true, "REFERENCE": true, "COMMENT": true, "FEATURES": true, "CONTIG": true, "ORIGIN": true}

var daysIn = []int{31, 28, 31, 30, 31, 30, 31, 31, 30, 31, 30, 31}

func rdate(r *rand.Rand) seqio.Date {
	y := 1 + r.Intn(9999)
	if r.Intn(4) == 0 {
		y = []int{1600, 1900, 2000, 2004, 2023, 2024, 2100, 2400, 1, 9999}[r.Intn(10)]
	}
	m := 1 + r.Intn(12)
	dmax := daysIn[m-1]
	if m == 2 && (y%400 == 0 || (y%100 != 0 && y%4 == 0)) {
		dmax = 29
	}
	d := 1 + r.Intn(dmax)
	if r.Intn(3) == 0 {
		d = dmax
	}
	return seqio.Date{Year: y, Month: time.Month(m), Day: d}
}

var quotedNames = []string{"product", "note", "gene", "locus_tag", "db_xref", "translation", "organism", "mol_type", "function"}
var literalNames = []string{"codon_start", "transl_table", "number", "citation", "transl_except", "anticodon"}
var toggleNames = []string{"pseudo", "partial", "ribosomal_slippage", "trans_splicing", "focus"}
var featKeys = []string{"source", "gene", "CDS", "mRNA", "misc_feature", "rep_origin", "tRNA", "exon", "misc_difference", "regulatory", "sig_peptide"}

func rfeature(o *Out, seqlen int) gts.Feature {
	r := o.Rng
	maxc := seqlen
	if maxc < 8 {
		maxc = 8
	}
	f := gts.Feature{Key: featKeys[r.Intn(len(featKeys))], Loc: apiLoc(randLoc(o, maxc, 2))}
	if r.Intn(12) == 0 {
		f.Key = rstr(r, alWord, 1, 15)
	}
	nq := r.Intn(5)
	for i := 0; i < nq; i++ {
		switch k := r.Intn(10); {
		case k < 5:
			name := quotedNames[r.Intn(len(quotedNames))]
			v := rtext(r, 1, 50)
			if r.Intn(4) == 0 {
				v = rtext(r, 3, 58) // multi-line value
			}
			f.Props.Add(name, v)
		case k < 7:
			name := literalNames[r.Intn(len(literalNames))]
			f.Props.Add(name, rstr(r, "0123456789", 1, 3))
		case k < 8:
			f.Props.Add(toggleNames[r.Intn(len(toggleNames))], "")
		default:
			// a name gts has not seen: written and read back as quoted
			f.Props.Add("x_"+rstr(r, "abcdefgh_", 1, 6), rtext(r, 2, 30))
		}
	}
	return f
}

// genRecord draws a record from the writable domain.
func genRecord(o *Out, seqlen int, nfeat int) seqio.GenBank {
	r := o.Rng
	f := seqio.GenBankFields{
		LocusName: rstr(r, alWord+".", 1, 16),
		Molecule:  []gts.Molecule{gts.DNA, gts.RNA, gts.AA, gts.SingleStrandDNA, gts.DoubleStrandDNA}[r.Intn(5)],
		Topology:  gts.Topology(r.Intn(2)),
		Date:      rdate(r),
	}
	if r.Intn(4) > 0 {
		f.Division = rstr(r, alUpper, 3, 3)
	}
	if r.Intn(6) > 0 {
		f.Definition = rtext(r, 3, 60)
	}
	if r.Intn(6) > 0 {
		f.Accession = rstr(r, alWord, 1, 12)
	}
	if r.Intn(6) > 0 {
		f.Version = rstr(r, alWord+".", 1, 14)
	}
	for i, n := 0, r.Intn(4); i < n; i++ {
		al := alWord + " "
		if r.Intn(3) == 0 {
			al = alWord + " : :"
		}
		f.DBLink.Set(rstr(r, alWord, 1, 10)+itoa(i), rstr(r, al, 0, 20))
	}
	for i, n := 0, r.Intn(8); i < n; i++ {
		f.Keywords = append(f.Keywords, strings.TrimSpace("k"+rstr(r, alWord+"  ", 0, 24)))
	}
	f.Source.Species = strings.TrimSpace("S" + rstr(r, alWord+"  ", 0, 50))
	f.Source.Name = strings.TrimSpace("O" + rstr(r, alWord+"  ", 0, 50))
	for i, n := 0, r.Intn(12); i < n; i++ {
		f.Source.Taxon = append(f.Source.Taxon, "T"+rstr(r, alWord, 0, 16))
	}
	for i, n := 0, r.Intn(4); i < n; i++ {
		ref := seqio.Reference{Number: i + 1}
		if r.Intn(4) > 0 {
			ref.Info = fmt.Sprintf("(bases %d to %d)", 1+r.Intn(5), 6+r.Intn(90))
		}
		if r.Intn(3) > 0 {
			ref.Authors = rtext(r, 2, 60)
		}
		if r.Intn(4) == 0 {
			ref.Group = rtext(r, 1, 40)
		}
		if r.Intn(3) > 0 {
			ref.Title = rtext(r, 3, 60)
		}
		if r.Intn(3) > 0 {
			ref.Journal = rtext(r, 2, 60)
		}
		if r.Intn(2) == 0 {
			ref.Xref = map[string]string{"PUBMED": rstr(r, "0123456789", 1, 8)}
		}
		if r.Intn(4) == 0 {
			ref.Comment = rtext(r, 2, 50)
		}
		if r.Intn(25) == 0 {
			ref.Number = []int{10, 99, 100, 999, 1000, 12345}[r.Intn(6)]
		}
		f.References = append(f.References, ref)
	}
	for i, n := 0, r.Intn(3); i < n; i++ {
		f.Comments = append(f.Comments, rtext(r, 4, 60))
	}
	for i, n := 0, r.Intn(3); i < n; i++ {
		name := rstr(r, alUpper, 2, 11)
		if knownFieldNames[name] {
			continue
		}
		f.Extra = append(f.Extra, seqio.GenBankExtraField(name, rtext(r, 3, 60)))
	}
	var res []byte
	if seqlen > 0 {
		res = residues("acgtacgtnnryACGT", seqlen, r.Intn(16))
		if r.Intn(6) == 0 {
			// a record that carries both a CONTIG line and residues (e.g. a
			// CONTIG-only record after an insertion)
			h := r.Intn(1000)
			f.Contig = seqio.Contig{Accession: rstr(r, alWord+".", 1, 12), Region: gts.Segment{h, h + 1 + r.Intn(100000)}}
		}
	} else if r.Intn(2) == 0 {
		// CONTIG-only record
		h := r.Intn(1000)
		f.Contig = seqio.Contig{Accession: rstr(r, alWord+".", 1, 12), Region: gts.Segment{h, h + 1 + r.Intn(100000)}}
	}
	var ff gts.FeatureSlice
	for i := 0; i < nfeat; i++ {
		ff = append(ff, rfeature(o, seqlen))
	}
	return seqio.GenBank{Fields: f, Table: ff, Origin: seqio.NewOrigin(res)}
}

// apiLoc rebuilds a location the way the constructors and methods of the API
// produce it: complement(complement(x)) exists only as a struct literal
// (Location.Complement unwraps it, and so does the reader).
func apiLoc(l gts.Location) gts.Location {
	switch v := l.(type) {
	case gts.Complemented:
		inner := apiLoc(v.Location)
		if c, ok := inner.(gts.Complemented); ok {
			return c.Location
		}
		return gts.Complemented{Location: inner}
	case gts.Joined:
		parts := make([]gts.Location, len(v))
		for i := range v {
			parts[i] = apiLoc(v[i])
		}
		return gts.Joined(parts)
	case gts.Ordered:
		parts := make([]gts.Location, len(v))
		for i := range v {
			parts[i] = apiLoc(v[i])
		}
		return gts.Ordered(parts)
	}
	return l
}

// edgeRecord pushes one aspect of a generated record to the edge of what the
// writer accepts and returns the class label.
func edgeRecord(o *Out, gb *seqio.GenBank, i int) string {
	r := o.Rng
	f := &gb.Fields
	switch i % 21 {
	case 0:
		f.Source.Species = "S" + rstr(r, alWord, 20, 30) + " " + rstr(r, alWord, 20, 30) + " " + rstr(r, alWord, 20, 40)
		return "long-species"
	case 1:
		f.Source.Name = "O" + rstr(r, alWord, 20, 30) + " " + rstr(r, alWord, 20, 30) + " " + rstr(r, alWord, 20, 40)
		return "long-organism"
	case 2:
		// at any position of the table: the first key line and the later ones are read by different parsers
		for len(gb.Table) < 3 {
			gb.Table = append(gb.Table, rfeature(o, gb.Len()))
		}
		keys := []string{"5'UTR", "3'UTR", "D-loop", "-10_signal", "-35_signal"}
		gb.Table[r.Intn(len(gb.Table))].Key = keys[r.Intn(5)]
		gb.Table[len(gb.Table)-1].Key = keys[r.Intn(5)]
		return "key-punct"
	case 3:
		gb.Table[0].Props.Add("note", "the \"quoted\" word "+rstr(r, alText, 0, 20))
		return "value-with-quote"
	case 4:
		gb.Table[0].Props.Add("note", "")
		return "value-empty"
	case 5:
		gb.Table[0].Props.Add("note", " lead and trail ")
		return "value-blanks"
	case 6:
		gb.Table[0].Props.Add("transl_except", "(pos:"+itoa(1+r.Intn(9))+".."+itoa(10+r.Intn(9))+",aa:Met)")
		return "literal-paren"
	case 7:
		f.Definition = rtext(r, 2, 40) + "."
		return "definition-period"
	case 8:
		f.Date.Year = 10000 + r.Intn(90000)
		if f.Date.Day > 28 {
			f.Date.Day = 28 // keep the date a valid calendar date whatever the new year
		}
		return "year-5-digits"
	case 9:
		f.LocusName = rstr(r, alWord, 17, 28)
		return "long-locus"
	case 10:
		f.Extra = append(f.Extra, seqio.GenBankExtraField(rstr(r, alUpper, 12, 12), rtext(r, 1, 30)))
		return "extra-name-12"
	case 11:
		f.Keywords = []string{rstr(r, alWord, 70, 90), rstr(r, alWord, 3, 9)}
		return "keyword-longer-than-line"
	case 12:
		f.Comments = append(f.Comments, "first\n\nthird after an empty line\n  indented")
		return "comment-empty-line"
	case 13:
		for k := range f.References {
			f.References[k].Number = 1000 + k
		}
		if len(f.References) == 0 {
			f.References = append(f.References, seqio.Reference{Number: 1000, Info: "(bases 1 to 9)", Title: "t"})
		}
		return "reference-1000"
	case 14:
		gb.Table[0].Props.Add("note", "line one\n/looks_like_a_qualifier\nline three")
		return "value-slash-line"
	case 15:
		// a backslash inside a value is data; at the very end of the value it
		// meets the closing quote (known finding K13)
		gb.Table[0].Props.Add("note", "path C:\\temp\\x and a \\n inside")
		gb.Table[len(gb.Table)-1].Props.Add("note", "even number at the end\\\\")
		return "value-backslash-inside"
	case 16:
		gb.Table[0].Props.Add("note", "ends with a backslash\\")
		gb.Table[0].Props.Add("gene", "after")
		return "value-backslash-last"
	case 17:
		// the name of a cross reference ends at the first colon; the value is the
		// rest of the line, colons and all
		f.DBLink.Set("Archive"+itoa(i), "SRR000001, run: first: lane 2")
		f.DBLink.Set("Other"+itoa(i), "a:b : c")
		return "dblink-value-with-colons"
	case 18:
		// entries are separated by "; " (semicolon AND blank): a semicolon inside an
		// entry, not followed by a blank, is data
		f.Keywords = []string{"RefSeq", "lacZ;lacY", "a;b;c"}
		f.Source.Taxon = []string{"other sequences", "artificial sequences;vectors", "x"}
		return "semicolon-inside-entry"
	case 19:
		// a feature key as wide as, or wider than, the key column (INSDC keys have at
		// most 15 characters; known finding K14)
		for len(gb.Table) < 2 {
			gb.Table = append(gb.Table, rfeature(o, gb.Len()))
		}
		wide := []string{"regulatory_regio", "regulatory_region", "a_very_long_feature_key_indeed"}[(i/21)%3]
		gb.Table[len(gb.Table)-1].Key = wide
		return "feature-key-16-or-more"
	default:
		f.DBLink.Set("Empty"+itoa(i), "")
		return "dblink-empty-value"
	}
}

func isToggleName(name string) bool {
	for _, n := range regSaved[2] {
		if n == name {
			return true
		}
	}
	return false
}

// projected observables of a record (DESIGN.md, C01): the header fields with
// the slice region folded into the accession line as the writer prints it,
// the table with toggle qualifiers reduced to their presence, the residues.
type gbView struct {
	fields map[string]string
	order  []string
}

func viewOf(gb seqio.GenBank) gbView {
	f := gb.Fields
	v := gbView{fields: map[string]string{}}
	put := func(k, s string) { v.fields[k] = s; v.order = append(v.order, k) }
	put("locus", fmt.Sprintf("%q %q %d %q %04d-%02d-%02d", f.LocusName, f.Molecule, f.Topology, f.Division, f.Date.Year, f.Date.Month, f.Date.Day))
	put("definition", f.Definition)
	acc := f.Accession
	if seg, ok := f.Region.(gts.Segment); ok {
		acc += fmt.Sprintf(" REGION: %d..%d", seg[0]+1, seg[1])
	}
	put("accession", acc)
	put("version", f.Version)
	put("dblink", fmt.Sprintf("%q", []seqio.Pair(f.DBLink)))
	put("keywords", fmt.Sprintf("%q", f.Keywords))
	put("species", f.Source.Species)
	put("organism", f.Source.Name)
	put("taxon", fmt.Sprintf("%q", f.Source.Taxon))
	var refs []string
	for _, r := range f.References {
		pm := "-"
		if r.Xref != nil {
			if x, ok := r.Xref["PUBMED"]; ok {
				pm = "pubmed:" + x
			}
		}
		refs = append(refs, fmt.Sprintf("%d %q %q %q %q %q %s %q", r.Number, r.Info, r.Authors, r.Group, r.Title, r.Journal, pm, r.Comment))
	}
	put("references", strings.Join(refs, " | "))
	put("comments", fmt.Sprintf("%q", f.Comments))
	var ex []string
	for _, e := range f.Extra {
		ex = append(ex, fmt.Sprintf("%q=%q", e.Name, e.Value))
	}
	put("extra", strings.Join(ex, " | "))
	put("contig", f.Contig.String())
	var ft []string
	for _, ftr := range gb.Table {
		var qs []string
		for _, it := range ftr.Props.Items() {
			val := it.Value
			if isToggleName(it.Key) {
				val = ""
			}
			qs = append(qs, fmt.Sprintf("%s=%q", it.Key, val))
		}
		ft = append(ft, fmt.Sprintf("%s %s {%s}", ftr.Key, locSx(ftr.Loc), strings.Join(qs, ",")))
	}
	put("features", strings.Join(ft, "\n"))
	res := ""
	if gb.Origin != nil {
		res = string(gb.Origin.Bytes())
	}
	put("residues", res)
	return v
}

func asGenBank(seq gts.Sequence) (seqio.GenBank, bool) {
	switch v := seq.(type) {
	case seqio.GenBank:
		return v, true
	case *seqio.GenBank:
		return *v, true
	}
	if info, ok := seq.Info().(seqio.GenBankFields); ok {
		return seqio.GenBank{Fields: info, Table: seq.Features(), Origin: seqio.NewOrigin(seq.Bytes())}, true
	}
	return seqio.GenBank{}, false
}

func writeGB(seq gts.Sequence) (text string, ok bool) {
	defer func() {
		if r := recover(); r != nil {
			text, ok = fmt.Sprint(r), false
		}
	}()
	var b bytes.Buffer
	resetRegistry()
	if _, err := seqio.NewWriter(&b, seqio.GenBankFile).WriteSeq(seq); err != nil {
		return err.Error(), false
	}
	return b.String(), true
}

// c01Known classifies an oracle failure as one of the listed known findings,
// by what the written record contains and which observable differs.
func c01Known(o *Out, kind string, gb seqio.GenBank, field string) bool {
	hasQuote, endsBackslash := false, false
	for _, f := range gb.Table {
		for _, it := range f.Props.Items() {
			if strings.Contains(it.Value, "\"") {
				hasQuote = true
			}
			if oddTrailingBackslashes(it.Value) {
				endsBackslash = true
			}
		}
	}
	name, species := gb.Fields.Source.Name, gb.Fields.Source.Species
	nameWraps := !strings.Contains(name, "\n") && wrap.Space(name, 67) != name
	speciesWraps := !strings.Contains(species, "\n") && wrap.Space(species, 67) != species
	// attribute the failure to a listed cause only if the record passes once
	// exactly that cause is taken out of it
	if nameWraps || speciesWraps || hasQuote || endsBackslash {
		cp := gb
		cp.Fields.Source.Name = strings.ReplaceAll(name, " ", "_")
		cp.Fields.Source.Species = strings.ReplaceAll(species, " ", "_")
		cp.Table = nil
		for _, f := range gb.Table {
			g := gts.Feature{Key: f.Key, Loc: f.Loc}
			for _, it := range f.Props.Items() {
				v := strings.ReplaceAll(it.Value, "\"", "'")
				if oddTrailingBackslashes(v) {
					v += "/"
				}
				g.Props.Add(it.Key, v)
			}
			cp.Table = append(cp.Table, g)
		}
		if !roundTripOK(cp) {
			return false
		}
	}
	// K4 (C06): Join is not idempotent, so a join left by an edit operation can
	// print to a text whose parse reduces once more.  Attributed only when the
	// record passes with every location passed through the constructors again.
	if kind == "fixed-point" || (kind == "fidelity" && field == "features") {
		cp := gb
		cp.Table = nil
		changed := false
		for _, f := range gb.Table {
			g := f
			g.Loc = renormLoc(f.Loc)
			if locSx(g.Loc) != locSx(f.Loc) {
				changed = true
			}
			cp.Table = append(cp.Table, g)
		}
		if changed && roundTripOK(cp) {
			o.KnownFinding("K4")
			return true
		}
	}
	// K14: a feature key of 16 or more characters leaves no blank before the
	// location (16) or makes the writer panic (17 and more).  Attributed only when
	// the record passes with those keys cut to 15 characters.
	wideKey := false
	for _, f := range gb.Table {
		if len(f.Key) >= 16 {
			wideKey = true
		}
	}
	if wideKey {
		cp := gb
		cp.Table = nil
		for _, f := range gb.Table {
			g := f
			if len(g.Key) > 15 {
				g.Key = g.Key[:15]
			}
			cp.Table = append(cp.Table, g)
		}
		if roundTripOK(cp) {
			o.KnownFinding("K14")
			return true
		}
	}
	for _, e := range gb.Fields.Extra {
		if len(e.Name) >= 12 && (kind == "closure" || kind == "fixed-point" || (kind == "fidelity" && field == "extra")) {
			cp := gb
			cp.Fields.Extra = nil
			for _, x := range gb.Fields.Extra {
				if len(x.Name) < 12 {
					cp.Fields.Extra = append(cp.Fields.Extra, x)
				}
			}
			if roundTripOK(cp) {
				o.KnownFinding("K12")
				return true
			}
		}
	}
	switch {
	case nameWraps && (kind == "fixed-point" || (kind == "fidelity" && (field == "organism" || field == "taxon"))):
		o.KnownFinding("K8")
		return true
	case speciesWraps && kind == "fidelity" && field == "species":
		o.KnownFinding("K9")
		return true
	case hasQuote && (kind == "fixed-point" || (kind == "fidelity" && field == "features")):
		o.KnownFinding("K10")
		return true
	case endsBackslash && (kind == "fixed-point" || kind == "closure" || (kind == "fidelity" && field == "features")):
		o.KnownFinding("K13")
		return true
	}
	return false
}

// a value that ends in an odd number of backslashes: the reader (pars.Quoted)
// takes the last one as an escape of the closing quote
func oddTrailingBackslashes(v string) bool {
	n := 0
	for n < len(v) && v[len(v)-1-n] == '\\' {
		n++
	}
	return n%2 == 1
}

// renormLoc rebuilds a location through Join/Order/Complement, as the parser does.
func renormLoc(l gts.Location) gts.Location {
	switch v := l.(type) {
	case gts.Joined:
		parts := make([]gts.Location, len(v))
		for i := range v {
			parts[i] = renormLoc(v[i])
		}
		return gts.Join(parts...)
	case gts.Ordered:
		parts := make([]gts.Location, len(v))
		for i := range v {
			parts[i] = renormLoc(v[i])
		}
		return gts.Order(parts...)
	case gts.Complemented:
		return renormLoc(v.Location).Complement()
	}
	return l
}

// roundTripOK evaluates the property's predicate without recording anything.
func roundTripOK(gb seqio.GenBank) bool {
	text1, ok := writeGB(gb)
	if !ok {
		return false
	}
	recs, clean := scanGenBank([]byte(text1))
	if !clean || len(recs) != 1 {
		return false
	}
	want, got := viewOf(gb), viewOf(recs[0])
	for _, k := range want.order {
		if want.fields[k] != got.fields[k] {
			return false
		}
	}
	text2, ok := writeGB(recs[0])
	return ok && text2 == text1
}

var pipelineTrace string

// checkRoundTrip is the property's predicate for one record.
func checkRoundTrip(o *Out, class string, gb seqio.GenBank) {
	// the copy written through the model-tied operator
	line := gbSx(gb, true)
	res := o.Run(class+":write", true, "gb_write", line)
	caseLine := join("gb_write", line)
	if !strings.HasPrefix(res, "ok ") {
		if c01Known(o, "closure", gb, "") {
			return
		}
		o.Violate("write-fails", caseLine, res)
		return
	}
	text1 := string(unhx(res[3:]))
	// the public writer gives the same bytes
	if t, ok := writeGB(gb); !ok || t != text1 {
		o.Violate("writer-entry-points-differ", caseLine, "")
	}
	o.Run(class+":read", true, "gb_scan", hxs(text1))
	recs, clean := scanGenBank([]byte(text1))
	if !clean || len(recs) != 1 {
		if c01Known(o, "closure", gb, "") {
			return
		}
		o.Violate("closure", caseLine, class+": "+fmt.Sprintf("own output read back as %d records, clean=%v", len(recs), clean))
		return
	}
	want, got := viewOf(gb), viewOf(recs[0])
	for _, k := range want.order {
		if want.fields[k] != got.fields[k] {
			if c01Known(o, "fidelity", gb, k) {
				continue
			}
			o.Violate("fidelity:"+k, caseLine, class+pipelineTrace+": "+fmt.Sprintf("wrote %.700q read %.700q", want.fields[k], got.fields[k]))
		}
	}
	text2, ok := writeGB(recs[0])
	if !ok || text2 != text1 {
		if c01Known(o, "fixed-point", gb, "") {
			return
		}
		o.Violate("fixed-point", caseLine, class+": "+firstDiff(text1, text2))
	}
}

func firstDiff(a, b string) string {
	la, lb := strings.Split(a, "\n"), strings.Split(b, "\n")
	for i := 0; i < len(la) && i < len(lb); i++ {
		if la[i] != lb[i] {
			return fmt.Sprintf("line %d: %.100q vs %.100q", i+1, la[i], lb[i])
		}
	}
	return fmt.Sprintf("%d vs %d lines", len(la), len(lb))
}

func corpusRecords() []seqio.GenBank {
	var out []seqio.GenBank
	for _, name := range []string{"NC_001422.gb", "NC_001422_part.gb", "pBAT5.txt", "NC_000913.3.min.gb"} {
		raw, err := ioutil.ReadFile("/repo/seqio/testdata/" + name)
		if err != nil {
			continue
		}
		recs, _ := scanGenBank(raw)
		out = append(out, recs...)
	}
	return out
}

// pipeline applies k random edit operations.
func pipeline(o *Out, seq gts.Sequence, pool []gts.Sequence, k int) (gts.Sequence, string) {
	r := o.Rng
	var trace []string
	for i := 0; i < k; i++ {
		n := gts.Len(seq)
		if n < 4 {
			break
		}
		guest := pool[r.Intn(len(pool))]
		if gts.Len(guest) > 300 {
			guest = gts.Slice(guest, 0, 40+r.Intn(100))
		}
		prev := seq
		op := r.Intn(9)
		panicked := false
		func() {
			defer func() {
				if rec := recover(); rec != nil {
					panicked = true
					trace = append(trace, fmt.Sprintf("PANIC(%v)", rec))
				}
			}()
			seq = pipelineStep(r, op, seq, guest, n, &trace)
		}()
		if panicked {
			var b bytes.Buffer
			for _, f := range prev.Features() {
				fmt.Fprintf(&b, "%s %s; ", f.Key, f.Loc)
			}
			o.Violate("pipeline-op-panics", strings.Join(trace, ","), fmt.Sprintf("len=%d features: %.300s", n, b.String()))
			return prev, strings.Join(trace, ",")
		}
	}
	return seq, strings.Join(trace, ",")
}

func pipelineStep(r *rand.Rand, op int, seq, guest gts.Sequence, n int, tr *[]string) gts.Sequence {
	trace := *tr
	defer func() { *tr = trace }()
	{
		switch op {
		case 0:
			p := r.Intn(n + 1)
			seq = gts.Insert(seq, p, guest)
			trace = append(trace, fmt.Sprintf("insert@%d", p))
		case 1:
			p := r.Intn(n + 1)
			seq = gts.Embed(seq, p, guest)
			trace = append(trace, fmt.Sprintf("embed@%d", p))
		case 2:
			p := r.Intn(n)
			l := r.Intn(n - p + 1)
			seq = gts.Delete(seq, p, l)
			trace = append(trace, fmt.Sprintf("delete@%d+%d", p, l))
		case 3:
			p := r.Intn(n)
			l := r.Intn(n - p + 1)
			seq = gts.Erase(seq, p, l)
			trace = append(trace, fmt.Sprintf("erase@%d+%d", p, l))
		case 4:
			a := r.Intn(n)
			b := a + 1 + r.Intn(n-a)
			seq = gts.Slice(seq, a, b)
			trace = append(trace, fmt.Sprintf("slice[%d:%d]", a, b))
		case 5:
			s := r.Intn(2*n) - n
			seq = gts.Rotate(seq, s)
			trace = append(trace, fmt.Sprintf("rotate%+d", s))
		case 6:
			seq = gts.Reverse(seq)
			trace = append(trace, "reverse")
		case 7:
			seq = gts.Complement(seq)
			trace = append(trace, "complement")
		case 8:
			seq = gts.Concat(seq, guest)
			trace = append(trace, "concat")
		}
	}
	return seq
}

func runC01(o *Out) {
	nGen, nPipe := 260, 160
	if o.Tier == "thorough" {
		nGen, nPipe = 3000, 2500
	}
	// 1. the pieces of the writer and reader on their own
	for y := 1; y <= 9999; y += 1 + o.Rng.Intn(40) {
		for m := 1; m <= 12; m++ {
			d := rdate(o.Rng)
			d.Year = y
			if d.Day > 28 {
				d.Day = 28
			}
			d.Month = time.Month(m)
			res := o.Run("date", true, "date_show", itoa(d.Year), itoa(m), itoa(d.Day))
			back := o.Run("date", true, "as_date", res[3:])
			if back != join("ok", itoa(d.Year), itoa(m), itoa(d.Day)) {
				o.Violate("date-roundtrip", join("date_show", itoa(d.Year), itoa(m), itoa(d.Day)), back)
			}
		}
	}
	for i := 0; i < 300; i++ {
		s := rstr(o.Rng, alWord+"    ;", 0, 200)
		if i%5 == 0 {
			s = strings.ReplaceAll(s, " ", "")
		}
		o.Run("wrap", len(s) > 67, "wrap_space", hxs(s), "67")
	}
	// 2. generated records: every residue count around the line/group edges, 0..n features
	lens := []int{0, 0, 1, 9, 10, 11, 59, 60, 61, 119, 120, 121, 180, 7, 33, 250}
	gens := make([]gts.Sequence, 0, nGen)
	for i := 0; i < nGen; i++ {
		seqlen := lens[i%len(lens)]
		if i >= 4*len(lens) {
			seqlen = o.Rng.Intn(400)
		}
		nfeat := []int{0, 1, 2, 3, 5, 8}[o.Rng.Intn(6)]
		gb := genRecord(o, seqlen, nfeat)
		class := "gen"
		if seqlen == 0 {
			class = "gen-noseq"
		} else if nfeat == 0 {
			class = "gen-nofeat"
		}
		checkRoundTrip(o, class, gb)
		if seqlen > 0 {
			gens = append(gens, gb)
		}
	}
	// 2b. the edges of the writable domain, one feature of the record at a time
	for i := 0; i < nGen/2; i++ {
		gb := genRecord(o, []int{0, 30, 61, 200}[o.Rng.Intn(4)], 1+o.Rng.Intn(3))
		class := edgeRecord(o, &gb, i)
		checkRoundTrip(o, "edge-"+class, gb)
	}
	// 3. corpus records
	corpus := corpusRecords()
	var pool []gts.Sequence
	for _, gb := range corpus {
		checkRoundTrip(o, "corpus", gb)
		// edit pipelines start from records whose features lie inside the sequence
		// (NC_000913.3.min.gb is a cut-down record whose features refer to the full genome)
		inside := true
		for _, f := range gb.Table {
			if !coordsIn(f.Loc, 0, gb.Len()) {
				inside = false
			}
		}
		if inside {
			pool = append(pool, gb)
		}
	}
	pool = append(pool, gens[:minInt(len(gens), 40)]...)
	// 4. multi-record streams are framed independently
	for i := 0; i < 40; i++ {
		k := 2 + o.Rng.Intn(4)
		var stream strings.Builder
		var want []string
		for j := 0; j < k; j++ {
			gb := genRecord(o, []int{0, 5, 60, 61, 130}[o.Rng.Intn(5)], o.Rng.Intn(4))
			t, ok := writeGB(gb)
			if !ok {
				continue
			}
			stream.WriteString(t)
			one, _ := scanGenBank([]byte(t))
			want = append(want, gbsSx(one))
		}
		res := o.Run("stream", true, "gb_scan", hxs(stream.String()))
		recs, clean := scanGenBank([]byte(stream.String()))
		var got []string
		for _, r := range recs {
			got = append(got, gbsSx([]seqio.GenBank{r}))
		}
		if !clean || strings.Join(got, "") != strings.Join(want, "") {
			o.Violate("framing", join("gb_scan", hxs(stream.String())), fmt.Sprintf("%d records, clean=%v: %.80s", len(recs), clean, res))
		}
	}
	// 5. edit pipelines
	for i := 0; i < nPipe; i++ {
		base := pool[o.Rng.Intn(len(pool))]
		if gts.Len(base) > 600 {
			a := o.Rng.Intn(gts.Len(base) - 500)
			base = gts.Slice(base, a, a+200+o.Rng.Intn(300))
		}
		seq, trace := pipeline(o, base, pool, 1+o.Rng.Intn(5))
		gb, ok := asGenBank(seq)
		if !ok {
			continue
		}
		o.Dist["pipeline-ops:"+itoa(strings.Count(trace, ",")+1)]++
		pipelineTrace = trace
		checkRoundTrip(o, "pipeline", gb)
		pipelineTrace = ""
	}
}
