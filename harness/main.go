// harness: per-property case generator, implementation runner and oracle
// (DESIGN.md §2, §4.2).  usage: harness <property> <tier> <seed> <outdir>
package main

import (
	"fmt"
	"os"
	"strconv"
)

var props = map[string]func(o *Out){}

func main() {
	if len(os.Args) >= 3 && os.Args[1] == "replay" {
		// harness replay "<case line>": evaluate one case on the implementation
		parts := splitArgs(os.Args[2])
		f, ok := ops[parts[0]]
		if !ok {
			fmt.Fprintln(os.Stderr, "unknown op", parts[0])
			os.Exit(2)
		}
		fmt.Println(guard(func() string { return f(parts[1:]) }))
		return
	}
	if len(os.Args) != 5 {
		fmt.Fprintln(os.Stderr, "usage: harness <property> <quick|thorough> <seed> <outdir>")
		os.Exit(2)
	}
	f, ok := props[os.Args[1]]
	if !ok {
		fmt.Fprintln(os.Stderr, "unknown property", os.Args[1])
		os.Exit(2)
	}
	seed, _ := strconv.ParseInt(os.Args[3], 10, 64)
	o := NewOut(os.Args[4], os.Args[2], seed)
	f(o)
	o.Close()
}
