"""Per-property metadata used by bin/check for the evidence files."""
import os, re, shutil, time

TRUSTED_BASE = [
    "Coq 8.16.1 kernel (coqc); vm_compute is used inside some proofs over finite tables and in Examples; no native_compute",
    "axioms: none expected; Print Assumptions of every theorem of the property is recorded in coverage.theorems on every run",
    "translator /verif/translator (go/ast -> coq/gen/*.v): byte/string tables and straight-line int functions; a source outside its fragment is reported as a broken tie for the dependent properties",
    "extraction: Require Extraction + ExtrOcamlBasic only (bool, option, unit, list, prod, sumbool, sumor to OCaml natives; nat/positive/N/Z stay extracted inductives); OCaml driver /verif/driver (line reader, hex and s-expression printer) is trusted glue",
    "Go harness /verif/harness (case generators, serialisers, oracles) built with -tags verif against /repo; hooks are add-only export files",
    "Go toolchain and standard library; go-pars/pars is modelled by hand (coq/model/Pars.v) and covered by the correspondence",
]

META = {
    "C16": {
        "sections": ["Arith.toOriginLength", "Arith.fromOriginLength", "Arith.Min"],
        "rule": "every length 0..N (quick N=400, thorough N=1300) x 3 residue alphabets through NewOrigin/Bytes/Len; the size arithmetic on every n in [-130, 3000] (thorough 200000); truncated/extended/random buffers through the decoder; ORIGIN blocks (valid LF, valid CRLF, declared length off by +-1/10/60/61, zero, negative, single-byte mutations, trailing garbage, truncated) through the fast validator, the slow line parser and the whole ORIGIN field reader, each followed by '//', by another record, or by nothing. A case is non-trivial when it has at least one residue / is not the plain valid LF block; distinct = distinct case lines.",
        "assumptions": [
            "Go int is modelled as unbounded Z (no overflow below 2^62)",
            "theorems bound the sequence length by 10^9 (width of the %9d index column) - the bound is part of each statement",
            "the fast-validator/slow-parser agreement is checked by correspondence and oracle on the listed block families, not yet by a theorem",
        ],
    },
}


def thorough_rebuild(pid, sh, coq, build):
    """Clean rebuild of the whole development in a scratch copy, then coqchk
    on the property's library (independent checker, prints axioms)."""
    d = f"{build}/thorough-{pid}"
    shutil.rmtree(d, ignore_errors=True)
    shutil.copytree(coq, d, ignore=shutil.ignore_patterns("*.vo", "*.vok", "*.vos", "*.glob", "*.aux", ".*.aux", "Makefile*", ".Makefile.d", ".lia.cache"))
    res = {}
    t0 = time.time()
    rc, out = sh("coq_makefile -f _CoqProject -o Makefile && timeout 2400 make -j16", cwd=d)
    res["clean_build_rc"] = rc
    res["clean_build_s"] = round(time.time() - t0, 1)
    ok = rc == 0
    if ok and os.path.exists(f"{d}/props/{pid}.vo"):
        t1 = time.time()
        rc, out = sh(f"timeout 2400 coqchk -silent -o -Q model GTS -Q gen GTS -Q proofs GTS -Q props GTS GTS.{pid}", cwd=d)
        res["coqchk_rc"] = rc
        res["coqchk_s"] = round(time.time() - t1, 1)
        m = re.search(r"\* Axioms:\s*(.*?)(?:\n\s*\n|\n\* |\Z)", out, flags=re.S)
        res["coqchk_axioms"] = (m.group(1).strip() if m else out[-400:]).split("\n")[:20]
        ok = ok and rc == 0
    else:
        res["error"] = out[-1500:]
    res["ok"] = ok
    shutil.rmtree(d, ignore_errors=True)
    return res
