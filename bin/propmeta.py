"""Per-property metadata used by bin/check for the evidence files."""
import os, re, shutil, time

TRUSTED_BASE = [
    "Coq 8.16.1 kernel (coqc); vm_compute is used inside some proofs over finite tables and in Examples; no native_compute",
    "axioms: none expected; Print Assumptions of every theorem of the property is recorded in coverage.theorems on every run",
    "translator /verif/translator (go/ast -> coq/gen/*.v): byte/string tables and straight-line int functions; a source outside its fragment is reported as a broken tie for the dependent properties",
    "extraction: Require Extraction + ExtrOcamlBasic only (bool, option, unit, list, prod, sumbool, sumor to OCaml natives; nat/positive/N/Z stay extracted inductives); OCaml driver /verif/driver (line reader, hex and s-expression printer) is trusted glue",
    "Go harness /verif/harness (case generators, serialisers, oracles) built with -tags verif against /repo; hooks are add-only export files",
    "Go toolchain and standard library; go-pars/pars is modelled by hand (coq/model/Pars.v) and covered by the correspondence",
]

META = {
    "C16": {
        "sections": ["Arith.toOriginLength", "Arith.fromOriginLength", "Arith.Min"],
        "rule": "every length 0..N (quick N=400, thorough N=1300) x 3 residue alphabets through NewOrigin/Bytes/Len; the size arithmetic on every n in [-130, 3000] (thorough 200000); truncated/extended/random buffers through the decoder; ORIGIN blocks (valid LF, valid CRLF, declared length off by +-1/10/60/61, zero, negative, single-byte mutations, trailing garbage, truncated) through the fast validator, the slow line parser and the whole ORIGIN field reader, each followed by '//', by another record, or by nothing. A case is non-trivial when it has at least one residue / is not the plain valid LF block; distinct = distinct case lines.",
        "assumptions": [
            "Go int is modelled as unbounded Z (no overflow below 2^62)",
            "theorems bound the sequence length by 10^9 (width of the %9d index column) - the bound is part of each statement",
            "the fast-validator/slow-parser agreement is checked by correspondence and oracle on the listed block families, not yet by a theorem",
        ],
    },
    "C02": {
        "sections": ["Arith.Max", "Arith.Min", "Arith.rangeCompare"],
        "rule": "shape family: every between-site/point/(partial) range/ambiguous span with coordinates in [0,8], their complements, joins and orders (and complements thereof) of 2 parts (thorough: 3 parts) from a 15-part pool incl. abutting, overlapping, single-base, zero-length and complemented parts, nesting 2; x every insertion index 0..8 x guest lengths {0,1,3}; Shift and Expand at location level, Insert and Embed at sequence level (host table = source + shape + another feature, guest with 0/1 feature), plus random tables of 0..5 features with nesting <= 2. Non-trivial = guest length > 0 (location level) / every sequence-level case; distinct = distinct case lines.",
        "assumptions": ["Go int as unbounded Z", "total theorems for locations without join(...) in the input (the joins produced by splitting are covered); _joins theorems cover every location up to adjacent duplicates under k1_after (no image point on an image range end): partial correctness; K1 shapes by correspondence + oracle",
                        "record-level theorems C02_insert_record / C02_embed_record: success, residues and the output table as a permutation of the relocated host and guest features (each once, key and qualifiers kept), under per-feature hypotheses ins_host_ok / emb_host_ok / guest_ok (k1_after + the operation returns a location)",
                        "the partial-marker clause: theorems C02_insert_keeps_markers_partial / C02_embed_keeps_markers_partial for join-free locations with non-empty ranges (flags = markers on the outer ends in reading direction); joins in the input by oracle + correspondence on locations whose markers sit on outer ends only (INSDC well-formed)"],
    },
    "C03": {
        "sections": ["Arith.Max", "Arith.rangeWithin", "Arith.rangeOverlap"],
        "rule": "shape family as C02 on a length-9 sequence x every (i,n) with n<=4 or n reaching the end; Delete and Erase on tables (source + shape) for all i and n in {0,1,3,L-i}; Slice over windows s,e in [-9,9] incl. wrap-around and negative indices. Non-trivial = n>0 / every slice; distinct case lines.",
        "assumptions": ["Go int as unbounded Z", "total theorem for inputs without join(...); C03_expand_neg_den_joins covers every location up to adjacent duplicates under k1_after; record-level theorems C03_delete_record, C03_erase_record and (join-free tables, non-wrapping window) C03_slice_record_partial: success, residues, which features stay, and what each denotes; slice through joins and the wrap-around window are decided by correspondence + oracle; ambiguous spans are compared by residues",
                        "GenBank REFERENCE clipping (metadata): refs_slice model + four theorems + oracle over windows at every range edge"],
    },
    "C04": {
        "sections": ["Arith.Max"],
        "rule": "L in {1,5,8} (thorough 1..8), every shape of the family (ambiguous spans whenever they do not cross the new origin), every n in [-3L,3L]; additivity with b in {1,-2,L}; Normalize alone on the full family for L in {3,8}. Non-trivial = n not a multiple of L.",
        "assumptions": ["Go int as unbounded Z", "PARTIAL: the feature theorems cover join-free locations (order/complement nesting of any depth), ranges shorter than L and ambiguous spans that do not cross the new origin; join(...) in the input: C04_location_joins_partial / C04_features_joins_partial under the computable side condition rot_okb (K1-free leaf images after Expand and after Normalize), up to adjacent duplicates; K1 shapes and additivity on whole tables are decided by correspondence + oracle"],
    },
    "C05": {
        "sections": ["Tables.complement"],
        "rule": "shape family with triples plus joins/orders of 4 and 5 parts, L=8: Reverse, Complement, Region, den at location level; Reverse, Complement, Locate and reverse-complement extraction at sequence level. Distinct case lines, all non-trivial.",
        "assumptions": ["total theorem for inputs without join(...) (order(...) of every arity); for every location incl. joins a partial-correctness theorem up to adjacent duplicates under k1_after (complement of K1)",
                        "record-level theorem C05_reverse_record (table a permutation of the relocated features, whatever their key); C05_revcomp_extracts_the_same: what a feature reads from the reverse-complemented record equals what it read from the original, for residues fixed by complementing twice (every IUPAC letter but u/U)",
                        "extraction equality is claimed for locations that name no base twice (Join drops duplicates, C06)"],
    },
    "C10": {
        "sections": ["Arith.Max"],
        "rule": "shape family on a length-8 host x every i x guest lengths {1,2,3}: insert;delete and embed;delete; cut sets {},{3},{0},{8},{2,5},{2,2},{1,4,6},{0,4,8},{1,3,5,7} through slice*;concat. All non-trivial; distinct case lines.",
        "assumptions": ["exact restoration is proved for contiguous locations; multi-part locations: den-level undo theorems; concat undoes split: C10_split_concat_bytes (any ascending cut list, empty pieces allowed), C10_piece_denotes_its_window_partial (join-free locations) and C10_pieces_partition (any denotation); exact coordinates of re-joined multi-part locations by correspondence + oracle"],
    },
    "C08": {
        "sections": ["Arith.Abs", "Arith.Max", "Arith.Compare"],
        "rule": "regions of 1..3 (thorough 4) segments with lengths 0..3 and gaps 0..2 plus two 5-segment regions, each on both strands (and bare segments), x all five modifier forms with offsets in [-len-3,len+3] (two-offset forms on a step-2 grid); Modifier.Apply on all (h,t) in [0,6]^2 incl. the mirror law; modifier print/re-parse; EVERY string of <=5 (thorough 6) symbols over {^,$,..,.,+,-,0,1,7} through AsModifier and the printed form of every modifier over an 18-value offset grid up to the edges of int; 8 locator specifiers x 7 modifiers on a 5-feature table. Oracle: inside bounds the resized region denotes spliced[lo:hi] (positions and residues through Locate); outside bounds the first/last segment is extended outward.",
        "assumptions": ["theorem C08_resize_slice covers every nested region and modifier with bounds inside the region (rwf: non-empty Regions values, coordinates within +-2^62; sums of lengths as unbounded Z); theorem C08_modifier_print_parse covers Modifier.String then AsModifier for int64 offsets; AsLocator is modelled and tied (locate_string), its composition and precedence are theorems; offsets outside the region: C08_resize_any_offsets (Resize succeeds for every modifier and denotes positions [lo,hi) of the region continued outward, eden) with C08_continuation_inside/before/after; the model computes in unbounded Z (the Go code agrees while no int overflows)",
                        "regexp selectors inside locators are exercised with literal keys/values only"],
    },
    "C09": {
        "sections": ["Arith.Min", "Arith.Max"],
        "rule": "exhaustive: every flat collection of 1..2 segments over [0,4]^2 (both orientations, also nested) and every triple over [0,3]; random: 1..6 regions x 1..4 segments, n<=14 (3000 quick / 200000 thorough); Minimize, InvertLinear, InvertCircular each. All cases non-trivial; distinct case lines.",
        "assumptions": ["sort.Sort on BySegment is modelled as insertion sort: after flattening, ties under BySegment.Less are identical values, so every correct sort returns the same slice (theorem C09_order_independent proves uniqueness of the sorted permutation)",
                        "InvertCircular: C09_invert_circular_partition (exact cover together with the minimized input, for regions that cover something)"],
    },
    "C18": {
        "sections": ["Tables.complement", "Tables.transcribe", "Tables.match"],
        "rule": "all 256 byte values through Complement/Transcribe (whole and byte by byte); every query x sequence byte pair over the 32 IUPAC letters (both cases) and 8 non-letters through Match; every sequence of length <=4 (thorough 6) x every query of length <=2 over small alphabets incl. '(' '*' and mixed case through Match and Search; random sequences (<=40, incl. newline and '-') x queries (<=4). Oracle: IUPAC base sets written independently in Go; brute-force soundness/completeness of Match and exactness of Search. Distinct case lines, all non-trivial.",
        "assumptions": ["bytes < 128: bytes.ToLower and regexp operate on UTF-8, a raw byte >= 0x80 in a query is outside the modelled domain (stated in DESIGN.md)",
                        "regexp.FindAllIndex is modelled as leftmost non-overlapping scanning of a fixed-width sequence of one-byte classes ('.' excludes newline); index/suffixarray as the set of all occurrences: both tied by correspondence only",
                        "K3 (row k = [gtuy]) is pinned by TestMatch and listed as a known finding"],
    },
    "C13": {
        "sections": [],
        "rule": "bodies: empty, small, repeated text (thorough: + 200 kB random multi-block) written through the real cache.Create/Write/Close; finished file compared structurally with root++data++sha1(body)++body (digests recomputed by the harness); then every byte offset x masks {0x01,0x80,0xFF}, every prefix length, appended tails of 1..3 bytes, wrong root / wrong data digest, crash states (placeholder + every body prefix; full body + every proper header prefix; a really abandoned writer) through the real cache.Open and through the model's open_entry (sha1/inflate supplied as tables). All cases non-trivial; distinct case lines.",
        "assumptions": ["crypto/sha1 and compress/flate are Section variables: the theorems hold for every hash of fixed size and every compressor with inflate(deflate x) = Some x; collision resistance is not assumed (conclusions offer an explicit collision)",
                        "PARTIAL: only program-order prefixes of the writer's write calls are modelled as crash states; the OS may reorder page writes after power loss",
                        "os.File.Read is assumed to fill the 3*size header buffer when the file is long enough"],
    },
    "C01": {
        "sections": ["Tables.QuotedQualifierNames", "Tables.LiteralQualifierNames", "Tables.ToggleQualifierNames", "Arith.isLeapYear", "Arith.toOriginLength", "Arith.fromOriginLength", "Arith.Abs"],
        "rule": "generated records of the writable domain (16 residue counts around the 10/60-residue edges then random < 400, 0..8 features with random INSDC locations built through the API, quoted/literal/toggle/unknown-name/multi-line qualifiers, every header field incl. DBLINK, multi-line DEFINITION/COMMENT/reference subfields, extra fields, CONTIG-only records), 16 edge classes (one aspect at the edge of the domain each), the four corpus files, streams of 2..5 records, and records reached from those by 1..5 random insert/embed/delete/erase/slice/rotate/reverse/complement/concat operations: GenBank.String (= model gb_show), then the reader (= model scan_genbank), then the writer again; date_show/as_date over a sweep of years x 12 months; wrap.Space on 300 strings. Oracle: one record read back, clean end, equal projected fields/table/residues, byte-identical second write, independent framing of streams.",
        "assumptions": ["projected observables: the slice REGION is compared as the accession line the writer prints; a toggle qualifier is compared by presence (the writer prints no value for it)",
                        "theorems: the whole LOCUS line (name, length, molecule, topology, division, date) every feature key line and the whole feature table with quoted qualifiers read back as written (table_parser (table_show ff) = ff); field bodies, KEYWORDS and qualifier values round-trip; the whole-record round trip is decided by correspondence of writer and reader with the model on every generated/corpus/pipeline record plus the oracle",
                        "the qualifier-name registries are process-global; each case starts from the registries as initialised (the harness restores them), the model threads them through a scan"],
    },
    "C07": {
        "sections": ["Tables.QuotedQualifierNames", "Tables.LiteralQualifierNames", "Tables.ToggleQualifierNames", "Arith.isLeapYear", "Arith.toOriginLength"],
        "rule": "two hand-written records at EVERY truncation offset and every line (delete/duplicate/swap/blank, indent shrink/strip/grow, value dropped, line cut at 7 columns), generated and corpus records sampled: declared length changed 14 ways, LOCUS spacing (field depth) changed 8 ways, 150..500 byte flips and 50..160 byte insertions/deletions from a hostile alphabet, CRLF whole/mixed/bare CR; every 7th mutant also through the auto-detecting scanner; 1500 (thorough 20000) streams assembled from format fragments; the inputs named by the property; location/date/feature-table strings (valid, every prefix, mutants, random) through AsLocation/AsDate/INSDCTableParser with the model, locator/modifier/selector/molecule/topology strings under recover and a 20 s limit. Oracle: no panic, no hang, a declared length that differs from the residues present is not read cleanly, a truncated record is neither read as complete nor dropped without an error; thorough: scan time on records of doubling size.",
        "assumptions": ["every scan is a correspondence case for the reader model, so the totality theorems speak about the code that ran",
                        "Panic-freedom of the GenBank/FASTA/auto scanners, the feature-table parser and the location parsers is a theorem for inputs below 10^9 bytes; OutOfFuel-freedom is not proved (decided on the explored inputs by the correspondence)",
                        "time proportional to the input is measured (thorough tier), not proved"],
    },
    "C17": {
        "sections": [],
        "rule": "every residue count 0..160 (thorough 0..300) over a 56-character printable alphabet without '>' x 7 descriptions (empty, with '>', tabs, leading/trailing blanks): Fasta.WriteTo, then the text and its CRLF conversion through the FASTA scanner; 200 random streams of 1..5 records (lengths around the multiples of 70) in LF and CRLF; 400 arbitrary byte strings over {'>',LF,CR,letters}; the corpus GenBank records (and slices of them) written as FASTA and read back. Non-trivial = residues present / any scan; distinct case lines.",
        "assumptions": ["theorems cover LF output read back by the reader; CRLF input and GenBank-to-FASTA description are decided by correspondence + oracle",
                        "fasta_ok: description without CR/LF, residues without '>', LF, CR (the property's own domain)"],
    },
    "C06": {
        "sections": ["Arith.Max", "Arith.Min"],
        "rule": "EVERY string of 1..4 (thorough 1..5) symbols over the 14-symbol location alphabet {0,1,2,9,.,^,<,>,',',),-,join(,order(,complement(} through AsLocation (41,370 / 579,194 strings; every 7th also through tryLocation); printed forms of the whole shape family and of 3000 (thorough 100000) random derivations (nesting <=3, 1..4 parts, coordinates < 300) and single-byte mutants of them; legacy trailing '>' spellings; Join/Order of every pair and a fifth of the triples from a 22-part pool. Oracle: print->parse->print identity, equal denotation and partial markers, parse->print fixed point for every accepted string, Join/Order keep the denoted bases. Non-trivial = more than one symbol / every structured case.",
        "assumptions": ["theorem C06_print_parse_roundtrip: as_location (show l) = Ok l for every printable l (int64 coordinates, constructor-normal joins/orders/complements); theorem C06_join_keeps_residues: Join keeps the denoted residues (up to adjacent duplicates) for every list with non-empty ranges and no point on a range end (k1_free); PARTIAL: with a point on a range end the statement is false of the code (K1), idempotence fails (K4): those shapes are decided by correspondence + oracle",
                        "values with complement(complement(x)) are not constructible through Location.Complement() and are outside the round-trip claim",
                        "known findings K1 (pinned by TestLocationReduction) and K4 (Join not idempotent around an absorbed between-site)"],
    },
    "C19": {
        "sections": ["Arith.rangeCompare", "Arith.rangeWithin", "Arith.rangeOverlap"],
        "rule": "12 features (3 keys x 4 qualifier sets incl. repeated names and multi-valued qualifiers) x ~600 selector strings assembled from keys, names and 12 patterns of a regexp fragment (literals, ^, $, ., escaped '/', one invalid), plus escape corner cases; all pairs of 11 atomic filters under And/Or/Not; Within/Overlap on the shape family x windows; Filter on the table; all insertion sequences of <=3 (a quarter of those of 4) features from a 10-feature pool; LocationLess on a grid of the family incl. transitivity triples. Oracle: an independent Go reading of the selector grammar using the real regexp package; residue reading of Within/Overlap; sortedness after Insert.",
        "assumptions": ["regexp is a parameter of the theorems; the correspondence instantiates it with a matcher for the generated fragment only",
                        "Or() with no arguments is TrueFilter (pinned by TestFeatureFilter) and Props entries are non-empty: outside the claims",
                        "Overlap with an empty window and zero-length sites follow the span reading, not the residue reading (documented in DESIGN.md)"],
    },
    "C12": {
        "sections": ["Arith.rangeCompare"],
        "rule": "1500 (thorough 60000) random tables of 0..5 features over two keys (CDS, source) x two qualifier sets (so classes collide) with locations from the shape family plus abutting partial fragments on both strands: Repair, Repair again; restoration: every shape of the family that is well-marked and duplicate-free as the unique CDS of a 3-feature table, cut at 7 cut sets of 1..3 positions, pieces concatenated, repaired and compared with the original. Oracle: no panic, argument untouched, idempotent, unchanged when no same-class pair abuts (abutting written independently), per-class coverage preserved, merges bounded by abutting pairs, restoration. All cases non-trivial.",
        "assumptions": ["theorems cover the merge step (residues kept), the index bookkeeping, and the whole table: C12_table_class_residues (per class the same stranded residues before and after, nothing moves between classes), C12_table_keeps_key_and_qualifiers, C12_table_unchanged_when_nothing_merges; PARTIAL: idempotence and restoration after several cuts / of multi-part features are decided by correspondence + oracle",
                        "classes are the printed strings key:%v(props) exactly as in the code; groups larger than 12 (unstable pdqsort) are outside the modelled domain",
                        "known finding K7: multi-part features are re-assembled only when they are ascending joins of ranges cut strictly inside a range"],
    },
    "C11": {
        "sections": [],
        "rule": "21 operations (insert, embed, delete, erase, slice, wrap-around slice, concat of 2 and 3, reverse, rotate, complement, transcribe, with-bytes/features/info, repair, filter, sorted feature insertion, locate, search, match) x host lengths 4..6 x guest lengths 0..2 x byte spare capacity {0,1,8} x table spare capacity {0,1,4}, host and guest being adjacent sub-slices of ONE buffer: views of all arguments, the whole enclosing buffer and the spare table slots are compared before and after, and the operation is repeated to check it gives the same result; 400 (thorough 20000) random sequences of 1..4 operations on the same original value; byte-level and table-level storage effects (buffer after, result) compared with the GoSlice model.",
        "assumptions": ["PARTIAL: Go's memory model beyond slices/arrays (GC, data races) is outside the model; Origin.Bytes converting its buffer in place is checked to be view-preserving by the oracle only",
                        "the theorems cover the storage lines of Insert/Embed, Rotate, Concat, FeatureSlice.Insert and Delete's table (the operations that were writing into their arguments); the other operations allocate by construction (make/copy) and are covered by the oracle"],
    },
    "C14": {
        "sections": ["Cli.table"],
        "rule": "the gts binary built from the tree, with XDG_CACHE_HOME/HOME/TMPDIR in a scratch directory: ~140 option configurations over the 19 cached subcommands (all subsets of boolean options for commands with <=3 of them, a fifth of the 64 subsets for query, valued options with 2-3 values, three secondary inputs for insert/annotate/search) x inputs {GenBank record, two-record stream, FASTA, truncated GenBank, garbage}; reference = --no-cache (stdout and -o); then ONE shared cache directory through four passes (cold, warm in reverse order, -o files, -o files again) and ~370 independent histories of length 1..3 mixing succeeding and failing invocations. Compared: stdout / -o bytes and exit status; the number of cache entries after every step with the model's prediction.",
        "assumptions": ["PARTIAL: what 'every option that changes the output is declared through flags and reaches encodePayload' means is the translator's def-use reading of cmd/gts/*.go; behaviour depending on the environment (terminal detection, unwritable cache directory) is outside the model",
                        "hashes are abstract: the theorem concludes equality OR an explicit digest collision"],
    },
    "C15": {
        "sections": ["Arith.Abs", "Arith.Min", "Arith.Max"],
        "rule": "the gts binary built from the tree on a generated 60-base GenBank record with 6 features (nested, overlapping, joined, complement strand), linear and circular, x 18 locators (points, ranges, complement ranges, selectors matching 0..2 features, each with and without modifiers incl. zero-length and out-of-hull ones) x {delete, delete -e, insert, insert -e, infix, infix -e, rotate, split, extract, extract -v, extract -F fasta}: stdout parsed back with seqio and compared (feature tables and residues) with the model's plan applied to the parsed input and the regions the locator resolves to. Oracle: union removed, one guest per head in input coordinates, pieces concatenate (circular: a rotation to a cut), first site at index 0, extracted subsequences in order without duplicates, -v stretches.",
        "assumptions": ["PARTIAL: option parsing, file I/O and the locator resolution are exercised, not modelled (the regions are resolved by the implementation and handed to the model)",
                        "theorems are about residues of feature-free records; features in the plans are covered by the correspondence"],
    },
}


def thorough_rebuild(pid, sh, coq, build):
    """Clean rebuild of the whole development in a scratch copy, then coqchk
    on the property's library (independent checker, prints axioms)."""
    d = f"{build}/thorough-{pid}"
    shutil.rmtree(d, ignore_errors=True)
    shutil.copytree(coq, d, ignore=shutil.ignore_patterns("*.vo", "*.vok", "*.vos", "*.glob", "*.aux", ".*.aux", "Makefile*", ".Makefile.d", ".lia.cache"))
    res = {}
    t0 = time.time()
    rc, out = sh("coq_makefile -f _CoqProject -o Makefile && timeout 2400 make -j16", cwd=d)
    res["clean_build_rc"] = rc
    res["clean_build_s"] = round(time.time() - t0, 1)
    ok = rc == 0
    if ok and os.path.exists(f"{d}/props/{pid}.vo"):
        t1 = time.time()
        rc, out = sh(f"timeout 2400 coqchk -silent -o -Q model GTS -Q gen GTS -Q proofs GTS -Q props GTS GTS.{pid}", cwd=d)
        res["coqchk_rc"] = rc
        res["coqchk_s"] = round(time.time() - t1, 1)
        m = re.search(r"\* Axioms:\s*(.*?)(?:\n\s*\n|\n\* |\Z)", out, flags=re.S)
        res["coqchk_axioms"] = (m.group(1).strip() if m else out[-400:]).split("\n")[:20]
        ok = ok and rc == 0
    else:
        res["error"] = out[-1500:]
    res["ok"] = ok
    shutil.rmtree(d, ignore_errors=True)
    return res
