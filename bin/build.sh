#!/bin/bash
# Rebuild everything the checks need from /repo's working tree and /verif:
# translator -> coq/gen, full .vo build, extraction, OCaml driver, Go harness.
set -e
V=/verif
export GOFLAGS=-mod=mod GOPROXY=off GOSUMDB=off GOTOOLCHAIN=local
mkdir -p $V/build/bin $V/build/ocaml
exec 9>$V/build/.lock
flock 9
( cd $V/translator && go build -o $V/build/bin/translator . )
$V/build/bin/translator /repo $V/coq/gen
cd $V/coq
[ -f Makefile ] && [ Makefile -nt _CoqProject ] || coq_makefile -f _CoqProject -o Makefile >/dev/null
timeout 1500 make -j16 2>&1 | grep -v '^COQDEP\|^COQC\|^make' || true
# make's own status:
timeout 1500 make -j16 >/dev/null 2>&1
cd $V/build/ocaml
H=$(cat $V/coq/model/*.v $V/coq/gen/*.v $V/coq/extract/Extract.v $V/driver/*.ml | sha1sum | cut -d' ' -f1)
if [ ! -x model_driver ] || [ "$(cat .hash 2>/dev/null)" != "$H" ]; then
  rm -f .hash
  coqc -Q $V/coq/model GTS -Q $V/coq/gen GTS $V/coq/extract/Extract.v >/dev/null
  cp $V/driver/*.ml .
  ocamlfind ocamlopt -O3 -w -a model.mli model.ml sx.ml main.ml -o model_driver 2>&1 | grep -v 'O3' || true
  [ -x model_driver ] && echo $H > .hash
fi
cp /repo/go.sum $V/harness/go.sum
( cd $V/harness && go build -tags verif -o $V/build/bin/harness . )
